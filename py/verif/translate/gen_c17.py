"""Generator for Gen/C7n.lean (C17): the small pure helpers and tables of src/celpy/c7nlib.py.

Translated every run from the working tree:
  * the one-line helpers `intersect`, `difference`, `unique_size`, `normalize`, `glob` (expression dialect
    below: `set`, `bool`, `len`, `&`, `-`, `.lower()`, `.strip()`, `fnmatch.fnmatch[case]`, the celtypes wrappers);
  * `C7NContext.__enter__/__exit__` as state transformers of the module global `C7N` (one level of a private
    helper method whose body is the single `global C7N` rebinding is inlined, see `_Helpers`);
  * whether `C7N_Interpreted_Runner.evaluate` brackets the evaluation with `C7NContext(filter=filter)` (assignment or
    `return` inside the block; no evaluation outside it, none deferred);
  * tables/constants: the `field_names` tuples (local, or ONE module-level literal constant that is bound once and only
    ever read as `NAME[…]`, see `_arn_table_constant`), separator and prefix of `arn_split`; the `"Key"`/`"Value"` names
    of `key`; the split calls, the strip and the result keys of `marked_key`; the exceptions `parse_cidr`
    turns into None; the class test of `size_parse_cidr`; `ComparableVersion`'s base class; the names bound
    by FUNCTIONS / DECLARATIONS.
Anything outside the subset raises TranslationError (handled like a broken bridge).
"""
from __future__ import annotations
import ast
import copy
from typing import List

from .py2lean import TranslationError, find_func, find_class, strip_doc, is_logger_call, lean_str, lean_list
from .common import parse, HEADER

SIGS = {
    "intersect": ("{α : Type} [DecidableEq α] (left right : List α)", "Bool"),
    "difference": ("{α : Type} [DecidableEq α] (left right : List α)", "Bool"),
    "unique_size": ("{α : Type} [DecidableEq α] (collection : List α)", "Nat"),
    "normalize": ("(string : Str)", "Str"),
    "glob": ("(text pattern : Str)", "Bool"),
}
PARAMS = {"intersect": ["left", "right"], "difference": ["left", "right"], "unique_size": ["collection"],
          "normalize": ["string"], "glob": ["text", "pattern"]}


def _dotted(e) -> str:
    if isinstance(e, ast.Name):
        return e.id
    if isinstance(e, ast.Attribute):
        return _dotted(e.value) + "." + e.attr
    raise TranslationError(f"callee {ast.dump(e)[:60]}")


KINDS = {"intersect": {"left": "list", "right": "list"}, "difference": {"left": "list", "right": "list"},
         "unique_size": {"collection": "list"}, "normalize": {"string": "str"}, "glob": {"text": "str", "pattern": "str"}}
RESULT_KIND = {"intersect": "bool", "difference": "bool", "unique_size": "nat", "normalize": "str", "glob": "bool"}
CMP = {ast.Gt: ">", ast.GtE: "≥", ast.Lt: "<", ast.LtE: "≤", ast.Eq: "=", ast.NotEq: "≠"}


def _as_set(x):
    """an iterable argument of a set method: a list is turned into a set first"""
    l, k = x
    if k == "set":
        return l
    if k == "list":
        return f"(pySet {l})"
    raise TranslationError(f"set operand of kind {k}")


def _truth(x):
    """Python truthiness of a translated value"""
    l, k = x
    if k == "bool":
        return l
    if k in ("set", "list"):
        return f"(pyBool {l})"
    if k == "nat":
        return f"(decide ({l} ≠ 0))"
    raise TranslationError(f"truth value of kind {k}")


def expr(e, params):
    """Python expression → (Lean term, kind); kinds: list, set, bool, nat, str.  `params`: name → kind."""
    if isinstance(e, ast.Name):
        if e.id not in params:
            raise TranslationError(f"free name {e.id}")
        return e.id, params[e.id]
    if isinstance(e, ast.Constant):
        if e.value is True or e.value is False:
            return ("true" if e.value else "false"), "bool"
        if isinstance(e.value, int) and e.value >= 0:
            return str(e.value), "nat"
        raise TranslationError(f"constant {e.value!r}")
    if isinstance(e, ast.BinOp):
        l, r = expr(e.left, params), expr(e.right, params)
        if l[1] != "set" or r[1] != "set":
            raise TranslationError(f"binary operator on kinds {l[1]}, {r[1]}")
        if isinstance(e.op, ast.BitAnd):
            return f"(pyAnd {l[0]} {r[0]})", "set"
        if isinstance(e.op, ast.Sub):
            return f"(pySub {l[0]} {r[0]})", "set"
        raise TranslationError(f"binop {type(e.op).__name__}")
    if isinstance(e, ast.UnaryOp) and isinstance(e.op, ast.Not):
        return f"(!{_truth(expr(e.operand, params))})", "bool"
    if isinstance(e, ast.IfExp):
        c = _truth(expr(e.test, params))
        a, b = expr(e.body, params), expr(e.orelse, params)
        if a[1] != b[1]:
            raise TranslationError("conditional expression with branches of different kinds")
        return f"(if {c} then {a[0]} else {b[0]})", a[1]
    if isinstance(e, ast.Compare) and len(e.ops) == 1:
        l, r = expr(e.left, params), expr(e.comparators[0], params)
        op = type(e.ops[0])
        if l[1] == "nat" and r[1] == "nat" and op in CMP:
            return f"(decide ({l[0]} {CMP[op]} {r[0]}))", "bool"
        if l[1] == "set" and r[1] == "set" and op is ast.LtE:
            return f"(pyIsSubset {l[0]} {r[0]})", "bool"
        raise TranslationError(f"comparison {type(e.ops[0]).__name__} on kinds {l[1]}, {r[1]}")
    if isinstance(e, ast.Call):
        if e.keywords:
            raise TranslationError("keyword arguments")
        fn = e.func
        if isinstance(fn, ast.Attribute) and fn.attr in ("lower", "strip") and not e.args:
            inner = expr(fn.value, params)
            if inner[1] != "str":
                raise TranslationError(f".{fn.attr}() on kind {inner[1]}")
            return f"({'pyLower' if fn.attr == 'lower' else 'pyStrip'} {inner[0]})", "str"
        if isinstance(fn, ast.Attribute) and fn.attr in ("intersection", "difference", "isdisjoint", "issubset") \
                and len(e.args) == 1 and not (isinstance(fn.value, ast.Name) and fn.value.id == "fnmatch"):
            recv = expr(fn.value, params)
            if recv[1] != "set":
                raise TranslationError(f".{fn.attr}() on kind {recv[1]}")
            arg = _as_set(expr(e.args[0], params))
            if fn.attr == "intersection":
                return f"(pyAnd {recv[0]} {arg})", "set"
            if fn.attr == "difference":
                return f"(pySub {recv[0]} {arg})", "set"
            if fn.attr == "isdisjoint":
                return f"(pyIsDisjoint {recv[0]} {arg})", "bool"
            return f"(pyIsSubset {recv[0]} {arg})", "bool"
        name = _dotted(fn)
        args = [expr(a, params) for a in e.args]
        if name == "cast" and len(e.args) == 2:
            return expr(e.args[1], params)
        if len(args) == 1:
            a = args[0]
            if name in ("set", "frozenset") and a[1] in ("list", "set"):
                return (a[0] if a[1] == "set" else f"(pySet {a[0]})"), "set"
            if name == "bool":
                return _truth(a), "bool"
            if name == "len" and a[1] in ("list", "set"):
                return f"(pyLen {a[0]})", "nat"
            if name in ("celtypes.BoolType", "BoolType"):
                return f"(celBool {_truth(a)})", "bool"
            if name in ("celtypes.IntType", "IntType") and a[1] == "nat":
                return f"(celInt {a[0]})", "nat"
            if name in ("celtypes.StringType", "StringType") and a[1] == "str":
                return f"(celStr {a[0]})", "str"
        two = {"fnmatch.fnmatch": "fnmatch", "fnmatch.fnmatchcase": "fnmatchcase"}
        if name in two and len(args) == 2 and args[0][1] == "str" and args[1][1] == "str":
            return f"({two[name]} {args[0][0]} {args[1][0]})", "bool"
        raise TranslationError(f"call {name}/{len(args)} on kinds {[a[1] for a in args]}")
    raise TranslationError(f"expression {type(e).__name__}")


def _single_assignments(fn: ast.FunctionDef):
    """names assigned exactly once in the function (by a plain `x = e` / `x: T = e`), with their value"""
    count, val = {}, {}
    for node in ast.walk(fn):
        tgts = []
        if isinstance(node, ast.Assign):
            tgts = node.targets
        elif isinstance(node, (ast.AnnAssign, ast.AugAssign)):
            tgts = [node.target]
        elif isinstance(node, (ast.For, ast.comprehension)):
            tgts = [node.target]
        elif isinstance(node, ast.NamedExpr):
            tgts = [node.target]
        for t in tgts:
            for n in ast.walk(t):
                if isinstance(n, ast.Name):
                    count[n.id] = count.get(n.id, 0) + 1
                    if isinstance(node, (ast.Assign, ast.AnnAssign)) and isinstance(t, ast.Name) and node.value is not None \
                            and not (isinstance(node, ast.Assign) and len(node.targets) != 1):
                        val[n.id] = node.value
                    else:
                        val.pop(n.id, None)
    return {k: v for k, v in val.items() if count.get(k) == 1}


def _returns_to_expr(stmts) -> ast.expr:
    """`return e` | `if c: return a else: return b` | `if c: return a` followed by more → one expression (IfExp)"""
    if not stmts:
        raise TranslationError("falls off the end")
    st = stmts[0]
    if isinstance(st, ast.Return):
        if st.value is None:
            raise TranslationError("bare return")
        return st.value
    if isinstance(st, ast.If):
        thn = _returns_to_expr(list(st.body))
        els = _returns_to_expr(list(st.orelse) if st.orelse else stmts[1:])
        return ast.IfExp(test=st.test, body=thn, orelse=els)
    raise TranslationError(f"statement {type(st).__name__}")


def one_liner(mod: ast.Module, name: str) -> str:
    fn = find_func(mod.body, name)
    params = [a.arg for a in fn.args.args]
    if params != PARAMS[name] or fn.args.vararg or fn.args.kwarg or fn.args.kwonlyargs or fn.args.defaults:
        raise TranslationError(f"{name}: parameters {params}")
    if fn.decorator_list:
        raise TranslationError(f"{name}: decorator")
    body = [s for s in strip_doc(fn.body) if not is_logger_call(s)]
    # single-assignment locals are inlined: `x = e; return f(x)` (the helpers are pure, so evaluation order is immaterial)
    env = {}
    i = 0
    while i < len(body) and isinstance(body[i], (ast.Assign, ast.AnnAssign)):
        st = body[i]
        if isinstance(st, ast.Assign) and len(st.targets) == 1 and isinstance(st.targets[0], ast.Name):
            tgt = st.targets[0].id
        elif isinstance(st, ast.AnnAssign) and isinstance(st.target, ast.Name) and st.value is not None:
            tgt = st.target.id
        else:
            raise TranslationError(f"{name}: statement {type(st).__name__}")
        if tgt in env or tgt in params:
            raise TranslationError(f"{name}: `{tgt}` is assigned twice")
        env[tgt] = st.value
        i += 1
    try:
        ret = _returns_to_expr(body[i:])
    except TranslationError as ex:
        raise TranslationError(f"{name}: body is not assignments followed by returns ({ex})")

    class Inline(ast.NodeTransformer):
        def visit_Name(self, node):
            if node.id in env:
                return self.visit(env[node.id])
            return node
    ret = Inline().visit(ret)
    sig, res = SIGS[name]
    term, kind = expr(ret, KINDS[name])
    if kind != RESULT_KIND[name]:
        raise TranslationError(f"{name}: result of kind {kind}, expected {RESULT_KIND[name]}")
    return f"def {name} {sig} : {res} :=\n  {term}\n"


# ---- key(): a first-match scan -----------------------------------------------------------------------------------------

def _strip_cast(e):
    while isinstance(e, ast.Call) and isinstance(e.func, ast.Name) and e.func.id == "cast" and len(e.args) == 2 and not e.keywords:
        e = e.args[1]
    return e


class _Scan:
    """`key(source, target)`: both spellings of "the first item whose X equals target" are brought to
    pyFirst (λ item, pred) (λ item, result) default source:
       A  matches = (item for item in source if PRED); try: return RES[next(matches)] except StopIteration: return DFLT
       B  for item in source: [locals]; if PRED: return RES  …  return DFLT
    PRED is `<get> == target`, RES is `<get>`, <get> is `item.get(CONST)` / `item[CONST]` up to `cast` and
    single-assignment locals."""

    def __init__(self, fn: ast.FunctionDef, source: str, target: str):
        self.fn, self.source, self.target = fn, source, target
        self.env = _single_assignments(fn)

    @staticmethod
    def pure(e) -> bool:
        """values a local may hold and still be inlined: they cannot raise and do not depend on when they are evaluated
        (names, constants, `cast`, the StringType of a literal, a - lazy - generator expression)"""
        e = _strip_cast(e)
        if isinstance(e, (ast.Name, ast.Constant, ast.GeneratorExp)):
            return True
        if isinstance(e, ast.Call) and not e.keywords and len(e.args) == 1 and isinstance(e.args[0], ast.Constant) \
                and isinstance(e.args[0].value, str):
            try:
                return _dotted(e.func) in ("celtypes.StringType", "StringType", "str")
            except TranslationError:
                return False
        return False

    def resolve(self, e, item: str, depth=0):
        e = _strip_cast(e)
        if isinstance(e, ast.Name) and e.id not in (item, self.source, self.target) and e.id in self.env and depth < 8:
            return self.resolve(self.env[e.id], item, depth + 1)
        return e

    def const(self, e, item) -> str:
        return _str_const(self.resolve(e, item))

    def get(self, e, item) -> str:
        """`item.get(K)` / `item[K]` → the constant K"""
        e = self.resolve(e, item)
        if isinstance(e, ast.Call) and isinstance(e.func, ast.Attribute) and e.func.attr == "get" and len(e.args) == 1 \
                and not e.keywords:
            recv, k = e.func.value, e.args[0]
        elif isinstance(e, ast.Subscript):
            recv, k = e.value, e.slice
        else:
            raise TranslationError(f"key(): not a mapping access: {ast.unparse(e)[:60]}")
        recv = self.resolve(recv, item)
        if not (isinstance(recv, ast.Name) and recv.id == item):
            raise TranslationError(f"key(): mapping access on {ast.unparse(recv)[:40]}, not on the scanned item")
        return self.const(k, item)

    def pred(self, e, item) -> str:
        e = self.resolve(e, item)
        if not (isinstance(e, ast.Compare) and len(e.ops) == 1 and isinstance(e.ops[0], ast.Eq)):
            raise TranslationError(f"key(): condition {ast.unparse(e)[:60]}")
        a, b = self.resolve(e.left, item), self.resolve(e.comparators[0], item)
        if isinstance(a, ast.Name) and a.id == self.target:
            a, b = b, a
        if not (isinstance(b, ast.Name) and b.id == self.target):
            raise TranslationError("key(): the condition does not compare with the target")
        return self.get(a, item)

    def result(self, e, item):
        """→ ('get', K) or ('none',)"""
        e = self.resolve(e, item)
        if isinstance(e, ast.Constant) and e.value is None:
            return ("none",)
        return ("get", self.get(e, item))

    def translate(self):
        body = [s for s in strip_doc(self.fn.body) if not is_logger_call(s)]
        # leading constant / generator assignments are reached through self.env
        rest = [s for s in body if not isinstance(s, (ast.Assign, ast.AnnAssign))]
        for s in body:
            if isinstance(s, (ast.Assign, ast.AnnAssign)):
                t = s.targets[0] if isinstance(s, ast.Assign) else s.target
                if not (isinstance(t, ast.Name) and t.id in self.env):
                    raise TranslationError("key(): a local is assigned more than once")
                if not self.pure(s.value):
                    raise TranslationError(f"key(): local `{t.id}` holds a computed value ({ast.unparse(s.value)[:40]})")
        if rest and isinstance(rest[0], ast.Try):
            return self.form_a(rest)
        if rest and isinstance(rest[0], ast.For):
            return self.form_b(rest)
        raise TranslationError("key(): neither generator+next nor a for loop with early return")

    def form_a(self, rest):
        tr = rest[0]
        if len(rest) != 1 or tr.orelse or tr.finalbody or len(tr.handlers) != 1 or not tr.body \
                or not isinstance(tr.body[-1], ast.Return) or tr.body[-1].value is None:
            raise TranslationError("key(): try statement shape")
        h = tr.handlers[0]
        if not (isinstance(h.type, ast.Name) and h.type.id == "StopIteration") or len(h.body) != 1 \
                or not isinstance(h.body[0], ast.Return):
            raise TranslationError("key(): handler shape")
        dflt = h.body[0].value or ast.Constant(None)
        retval = tr.body[-1].value

        def is_next(n):
            return isinstance(n, ast.Call) and isinstance(n.func, ast.Name) and n.func.id == "next"
        # `first = next(matches)` before the return: the local stands for the item found
        first_local = None
        if len(tr.body) == 2 and isinstance(tr.body[0], (ast.Assign, ast.AnnAssign)):
            st = tr.body[0]
            t = st.targets[0] if isinstance(st, ast.Assign) else st.target
            if not (isinstance(t, ast.Name) and t.id in self.env and st.value is not None and is_next(_strip_cast(st.value))):
                raise TranslationError("key(): try statement shape")
            first_local = t.id
            nexts = [_strip_cast(st.value)]
            if any(is_next(n) for n in ast.walk(retval)):
                raise TranslationError("key(): next() called twice")
        elif len(tr.body) == 1:
            # the single next(<generator>) inside the returned expression
            nexts = [n for n in ast.walk(retval) if is_next(n)]
        else:
            raise TranslationError("key(): try statement shape")
        if len(nexts) != 1 or len(nexts[0].args) != 1 or nexts[0].keywords:
            raise TranslationError("key(): exactly one next(generator) expected")
        gen = self.resolve(nexts[0].args[0], "")
        if not isinstance(gen, ast.GeneratorExp) or len(gen.generators) != 1:
            raise TranslationError("key(): next() of something that is not a generator expression")
        comp = gen.generators[0]
        if comp.is_async or not isinstance(comp.target, ast.Name) or len(comp.ifs) != 1:
            raise TranslationError("key(): generator shape")
        item = comp.target.id
        if not (isinstance(comp.iter, ast.Name) and comp.iter.id == self.source):
            raise TranslationError("key(): the generator does not scan the source list")
        if not (isinstance(_strip_cast(gen.elt), ast.Name) and _strip_cast(gen.elt).id == item):
            raise TranslationError("key(): the generator does not yield the item itself")
        pk = self.pred(comp.ifs[0], item)

        class Sub(ast.NodeTransformer):
            def visit_Call(self, node):
                if node is nexts[0]:
                    return ast.Name(id=item, ctx=ast.Load())
                return self.generic_visit(node)

            def visit_Name(self, node):
                if first_local is not None and node.id == first_local:
                    return ast.Name(id=item, ctx=ast.Load())
                return node
        if first_local is not None:
            self.env.pop(first_local, None)
        res = self.result(Sub().visit(retval), item)
        return pk, res, self.result(dflt, item)

    def form_b(self, rest):
        loop = rest[0]
        if not isinstance(loop.target, ast.Name) or not (isinstance(loop.iter, ast.Name) and loop.iter.id == self.source):
            raise TranslationError("key(): the loop does not scan the source list")
        item = loop.target.id
        after = list(loop.orelse) + rest[1:]
        if any(isinstance(n, (ast.Break, ast.Continue)) for n in ast.walk(loop)):
            raise TranslationError("key(): break/continue in the loop")
        lb = [s for s in loop.body if not isinstance(s, (ast.Assign, ast.AnnAssign)) and not is_logger_call(s)]
        if len(lb) != 1 or not isinstance(lb[0], ast.If) or lb[0].orelse or len(lb[0].body) != 1 \
                or not isinstance(lb[0].body[0], ast.Return):
            raise TranslationError("key(): loop body is not `if <cond>: return <value>`")
        # locals of the loop body must be defined before the test (they are inlined)
        idx = loop.body.index(lb[0])
        for st in loop.body[:idx]:
            if isinstance(st, (ast.Assign, ast.AnnAssign)):
                t = st.targets[0] if isinstance(st, ast.Assign) else st.target
                if not (isinstance(t, ast.Name) and t.id in self.env and st.value is not None and self.pure(st.value)):
                    raise TranslationError("key(): a loop local holds a computed value or is assigned twice")
        if any(isinstance(s, (ast.Assign, ast.AnnAssign)) for s in loop.body[idx + 1:]):
            raise TranslationError("key(): assignment after the test")
        pk = self.pred(lb[0].test, item)
        res = self.result(lb[0].body[0].value or ast.Constant(None), item)
        if not after:
            dflt = ("none",)
        elif len(after) == 1 and isinstance(after[0], ast.Return):
            dflt = self.result(after[0].value or ast.Constant(None), item)
        else:
            raise TranslationError("key(): statements after the loop")
        return pk, res, dflt


def gen_key(mod: ast.Module) -> List[str]:
    fn = find_func(mod.body, "key")
    params = [a.arg for a in fn.args.args]
    if len(params) != 2 or fn.args.vararg or fn.args.kwarg or fn.args.kwonlyargs or fn.args.defaults or fn.decorator_list:
        raise TranslationError(f"key: parameters {params}")
    pk, res, dflt = _Scan(fn, params[0], params[1]).translate()

    def rterm(r):
        if r[0] == "none":
            return "(pure none)"
        return f"(do let v ← Tag.get item (ofString {lean_str(r[1])}); pure (some v))"
    if res[0] != "get":
        raise TranslationError("key(): the value returned for a match is not a mapping access")
    out = ["/-- `key(source, target)`: first item whose entry `tagKeyName` equals the target (for loop with early return, or a lazy",
           "generator consumed by one `next()`; `MapType.get` raises KeyError for a missing entry) -/",
           "def key (source : List (Tag Str)) (target : Str) : PyM (Option Str) :=",
           f"  pyFirst (fun item => do let k ← Tag.get item (ofString {lean_str(pk)}); pure (decide (k = target)))",
           f"    (fun item => {rterm(res)})",
           f"    {rterm(dflt) if dflt[0] == 'none' else '(pure none) /- unsupported default -/'} source\n"]
    if dflt[0] != "none":
        raise TranslationError("key(): the default is not None")
    out.append(f"def tagKeyName : String := {lean_str(pk)}")
    out.append(f"def tagValueName : String := {lean_str(res[1])}")
    out.append("")
    return out


# ---- size_parse_cidr(): a decision over the parsed value -----------------------------------------------------------------

def gen_size(mod: ast.Module) -> List[str]:
    fn = find_func(mod.body, "size_parse_cidr")
    params = [a.arg for a in fn.args.args]
    if len(params) != 1 or fn.args.vararg or fn.args.kwarg or fn.args.kwonlyargs or fn.args.defaults or fn.decorator_list:
        raise TranslationError(f"size_parse_cidr: parameters {params}")
    value = params[0]
    body = [s for s in strip_doc(fn.body) if not is_logger_call(s)]
    env = _single_assignments(fn)

    def is_parse(e) -> bool:
        return (isinstance(e, ast.Call) and isinstance(e.func, ast.Name) and e.func.id == "parse_cidr" and len(e.args) == 1
                and not e.keywords and isinstance(e.args[0], ast.Name) and e.args[0].id == value)
    local = None
    if body and isinstance(body[0], (ast.Assign, ast.AnnAssign)):
        st = body[0]
        t = st.targets[0] if isinstance(st, ast.Assign) else st.target
        if isinstance(t, ast.Name) and t.id in env and st.value is not None and is_parse(st.value):
            local = t.id
            body = body[1:]

    def is_cidr(e) -> bool:
        e = _strip_cast(e)
        return (isinstance(e, ast.Name) and e.id == local and local is not None) or is_parse(e)

    def test(e) -> str:
        if is_cidr(e):
            return "(cidrTruthy cidr)"
        if isinstance(e, ast.UnaryOp) and isinstance(e.op, ast.Not):
            return f"(!{test(e.operand)})"
        if isinstance(e, ast.BoolOp):
            op = " && " if isinstance(e.op, ast.And) else " || "
            return "(" + op.join(test(v) for v in e.values) + ")"
        if isinstance(e, ast.Call) and isinstance(e.func, ast.Name) and e.func.id == "isinstance" and len(e.args) == 2 \
                and not e.keywords and is_cidr(e.args[0]) and isinstance(e.args[1], ast.Name) and e.args[1].id == "IPv4Network":
            return "(cidrIsNet cidr)"
        if isinstance(e, ast.Compare) and len(e.ops) == 1 and is_cidr(e.left) and isinstance(e.comparators[0], ast.Constant) \
                and e.comparators[0].value is None and isinstance(e.ops[0], (ast.Is, ast.IsNot)):
            return "(cidrIsNone cidr)" if isinstance(e.ops[0], ast.Is) else "(!(cidrIsNone cidr))"
        raise TranslationError(f"size_parse_cidr: condition {ast.unparse(e)[:60]}")

    def val(e) -> str:
        e = _strip_cast(e)
        if isinstance(e, ast.Constant) and e.value is None:
            return "(pure none)"
        if isinstance(e, ast.IfExp):
            return f"(if {test(e.test)} then {val(e.body)} else {val(e.orelse)})"
        if isinstance(e, ast.Call) and not e.keywords and len(e.args) == 1 and _dotted(e.func) in ("celtypes.IntType", "IntType"):
            a = _strip_cast(e.args[0])
            if isinstance(a, ast.Attribute) and a.attr == "prefixlen" and is_cidr(a.value):
                return "(do let n ← cidrPrefixlen cidr; pure (some (celInt n)))"
        raise TranslationError(f"size_parse_cidr: value {ast.unparse(e)[:60]}")

    def stmts(ss) -> str:
        if not ss:
            return "(pure none)"        # falling off the end returns None
        st = ss[0]
        if isinstance(st, ast.Return):
            return val(st.value) if st.value is not None else "(pure none)"
        if isinstance(st, ast.If):
            def ends(b):      # does the block always return?
                return bool(b) and (isinstance(b[-1], ast.Return) or
                                    (isinstance(b[-1], ast.If) and ends(b[-1].body) and ends(b[-1].orelse)))
            thn = stmts(list(st.body) + ([] if ends(st.body) else ss[1:]))
            els = stmts(list(st.orelse) + ([] if ends(st.orelse) else ss[1:]))
            return f"(if {test(st.test)} then {thn} else {els})"
        if isinstance(st, ast.Pass):
            return stmts(ss[1:])
        raise TranslationError(f"size_parse_cidr: statement {type(st).__name__}")
    return ["/-- `size_parse_cidr` as a function of the value `parse_cidr(value)` returned -/",
            f"def size_parse_cidr (cidr : Cidr) : PyM (Option Nat) :=\n  {stmts(body)}\n"]


# ---- C7NContext -----------------------------------------------------------------------------------------------

def _exc_cond(test) -> str:
    """conditions on `exc_type` → Lean Bool expression on `excRaised`"""
    if isinstance(test, ast.Name) and test.id in ("exc_type", "exc_value"):
        return "excRaised"
    if isinstance(test, ast.UnaryOp) and isinstance(test.op, ast.Not):
        return f"(!{_exc_cond(test.operand)})"
    if (isinstance(test, ast.Compare) and len(test.ops) == 1 and isinstance(test.left, ast.Name)
            and test.left.id in ("exc_type", "exc_value") and isinstance(test.comparators[0], ast.Constant)
            and test.comparators[0].value is None):
        if isinstance(test.ops[0], ast.Is):
            return "(!excRaised)"
        if isinstance(test.ops[0], ast.IsNot):
            return "excRaised"
    raise TranslationError(f"condition {ast.unparse(test)[:60]}")


def _c7n_value(v) -> str:
    if isinstance(v, ast.Name) and v.id == "self":
        return "(some self)"
    if isinstance(v, ast.Constant) and v.value is None:
        return "none"
    if isinstance(v, ast.Call) and isinstance(v.func, ast.Name) and v.func.id == "cast" and len(v.args) == 2:
        return _c7n_value(v.args[1])
    if isinstance(v, ast.Name) and v.id == "C7N":
        return "c7n"
    raise TranslationError(f"value assigned to C7N: {ast.unparse(v)[:60]}")


def _declares_global(fn: ast.FunctionDef, name: str) -> bool:
    """`global <name>` among the function's own statements (not inside a nested def/class/lambda)"""
    def walk(nodes):
        for n in nodes:
            if isinstance(n, ast.Global) and name in n.names:
                return True
            if isinstance(n, (ast.FunctionDef, ast.AsyncFunctionDef, ast.ClassDef, ast.Lambda)):
                continue
            if walk(list(ast.iter_child_nodes(n))):
                return True
        return False
    return walk(fn.body)


class _Helpers:
    """One level of inlining for `self.<m>(x)` / `C7NContext.<m>(x)` statements in `__enter__`/`__exit__`: `<m>` is a method
    of C7NContext, defined once, a `@staticmethod` of one parameter (or a plain method `(self, p)` called through `self`),
    never re-bound as an attribute anywhere in the module, whose whole body is `global C7N` + ONE `C7N = <value>`
    (docstring, `pass`, a final bare `return` apart).  The statement then IS that rebinding with the argument put in
    place of the parameter.  Anything else: TranslationError."""

    def __init__(self, mod: ast.Module, cls: ast.ClassDef):
        self.mod, self.cls = mod, cls

    def inline(self, call: ast.Call) -> ast.expr:
        """→ the expression assigned to the global C7N by this call"""
        fn = call.func
        if not (isinstance(fn, ast.Attribute) and isinstance(fn.value, ast.Name) and fn.value.id in ("self", self.cls.name)):
            raise TranslationError(f"call {ast.unparse(call)[:50]} in a context method")
        via_self = fn.value.id == "self"
        name = fn.attr
        if call.keywords or len(call.args) != 1 or isinstance(call.args[0], ast.Starred):
            raise TranslationError(f"{name}(): call shape")
        defs = [n for n in ast.walk(self.cls) if isinstance(n, (ast.FunctionDef, ast.AsyncFunctionDef, ast.ClassDef)) and n.name == name]
        direct = [n for n in self.cls.body if isinstance(n, ast.FunctionDef) and n.name == name]
        if len(defs) != 1 or len(direct) != 1:
            raise TranslationError(f"C7NContext.{name} is not defined exactly once as a method")
        for n in ast.walk(self.mod):      # `self.m = …`, `C7NContext.m = …`, `del x.m`, `m = …` in the class body, setattr(…, "m", …)
            if isinstance(n, ast.Attribute) and n.attr == name and not isinstance(n.ctx, ast.Load):
                raise TranslationError(f"attribute {name} is re-bound")
            if isinstance(n, ast.Constant) and n.value == name:
                raise TranslationError(f"the name {name!r} occurs as a string (setattr?)")
        for n in ast.walk(self.cls):
            if isinstance(n, ast.Name) and n.id == name and not isinstance(n.ctx, ast.Load):
                raise TranslationError(f"{name} is re-bound in the class body")
        h = direct[0]
        a = h.args
        if a.vararg or a.kwarg or a.kwonlyargs or a.defaults or a.kw_defaults or a.posonlyargs:
            raise TranslationError(f"{name}(): parameter list")
        names = [x.arg for x in a.args]
        decos = [ast.unparse(d) for d in h.decorator_list]
        if decos == ["staticmethod"] and len(names) == 1:
            param = names[0]
            if any(isinstance(n, ast.Name) and n.id == "self" for n in ast.walk(h)):
                raise TranslationError(f"{name}(): a @staticmethod mentions `self`")
        elif decos == [] and len(names) == 2 and names[0] == "self" and via_self:
            param = names[1]
        else:
            raise TranslationError(f"{name}(): neither a @staticmethod of one parameter nor a plain method called through self")
        if param in ("C7N", "self", "cast"):
            raise TranslationError(f"{name}(): parameter named {param}")
        if not _declares_global(h, "C7N"):
            raise TranslationError(f"{name}() does not declare `global C7N`")
        body = [s for s in strip_doc(h.body) if not is_logger_call(s) and not isinstance(s, ast.Pass)]
        if body and isinstance(body[-1], ast.Return) and (body[-1].value is None or (
                isinstance(body[-1].value, ast.Constant) and body[-1].value.value is None)):
            body = body[:-1]
        rest = [s for s in body if not isinstance(s, ast.Global)]
        if any(g.names != ["C7N"] for g in body if isinstance(g, ast.Global)):
            raise TranslationError(f"{name}() declares another global")
        if len(rest) != 1 or not (isinstance(rest[0], ast.Assign) and len(rest[0].targets) == 1
                                  and isinstance(rest[0].targets[0], ast.Name) and rest[0].targets[0].id == "C7N"):
            raise TranslationError(f"{name}(): body is not the single rebinding `C7N = <value>`")
        arg = call.args[0]

        class Sub(ast.NodeTransformer):
            def visit_Name(self, node):
                return arg if node.id == param else node
        return Sub().visit(copy.deepcopy(rest[0].value))


def ctx_block(stmts, cur: str, allow_cond: bool, has_global: bool = True, helpers: "_Helpers" = None) -> str:
    """Lean expression of type `Option Nat × Bool`: (C7N afterwards, return value truthy)"""
    stmts = [s for s in strip_doc(stmts) if not is_logger_call(s)]
    for i, st in enumerate(stmts):
        if isinstance(st, (ast.Global, ast.Pass)):
            continue
        if isinstance(st, ast.Assign) and len(st.targets) == 1 and isinstance(st.targets[0], ast.Name) \
                and st.targets[0].id == "C7N":
            if not has_global:
                raise TranslationError("a context method assigns C7N without `global C7N` (a local)")
            v = _c7n_value(st.value)
            cur = cur if v == "c7n" else v
            continue
        if isinstance(st, ast.Expr) and isinstance(st.value, ast.Call) and helpers is not None:
            v = _c7n_value(helpers.inline(st.value))
            cur = cur if v == "c7n" else v
            continue
        if isinstance(st, ast.Return):
            if st.value is None or (isinstance(st.value, ast.Constant) and st.value.value in (None, False)):
                return f"({cur}, false)"
            if isinstance(st.value, ast.Constant) and st.value.value is True:
                return f"({cur}, true)"
            raise TranslationError("return value of a context method")
        if isinstance(st, ast.If) and allow_cond:
            c = _exc_cond(st.test)
            rest = stmts[i + 1:]
            thn = ctx_block(list(st.body) + rest, cur, allow_cond, has_global, helpers)
            els = ctx_block(list(st.orelse) + rest, cur, allow_cond, has_global, helpers)
            return f"(if {c} then {thn} else {els})"
        raise TranslationError(f"statement {type(st).__name__} in a context method")
    return f"({cur}, false)"


def _eval_calls(stmts) -> list:
    """calls `<receiver>.evaluate(context)` executed by these statements themselves (a call inside a lambda, a nested
    def/class or a generator expression is deferred: TranslationError, such code is not followed)"""
    found = []

    def walk(n, deferred):
        if isinstance(n, ast.Call) and isinstance(n.func, ast.Attribute) and n.func.attr == "evaluate" and not n.keywords \
                and len(n.args) == 1 and isinstance(n.args[0], ast.Name) and n.args[0].id == "context":
            if deferred:
                raise TranslationError("evaluate(): the evaluation is deferred (lambda / nested def / generator)")
            found.append(n)
        d = deferred or isinstance(n, (ast.Lambda, ast.FunctionDef, ast.AsyncFunctionDef, ast.ClassDef, ast.GeneratorExp))
        for c in ast.iter_child_nodes(n):
            walk(c, d)
    for st in stmts:
        walk(st, False)
    return found


def gen_ctx(mod: ast.Module) -> List[str]:
    cls = find_class(mod, "C7NContext")
    enter = find_func(cls.body, "__enter__")
    exit_ = find_func(cls.body, "__exit__")
    if [a.arg for a in enter.args.args] != ["self"] or len(exit_.args.args) != 4:
        raise TranslationError("C7NContext method signatures")
    init = find_func(cls.body, "__init__")
    ok_init = any(isinstance(s, ast.Assign) and ast.unparse(s).replace(" ", "") == "self.filter=filter" for s in init.body)
    if not ok_init:
        raise TranslationError("C7NContext.__init__ does not store `filter`")
    if enter.decorator_list or exit_.decorator_list:
        raise TranslationError("decorated context method")
    helpers = _Helpers(mod, cls)
    out = ["/-- `C7NContext.__enter__`: value of the module global `C7N` afterwards -/",
           f"def ctxEnter (self : Nat) (c7n : Option Nat) : Option Nat :=\n  ({ctx_block(enter.body, 'c7n', False, _declares_global(enter, 'C7N'), helpers)}).1\n",
           "/-- `C7NContext.__exit__`: (value of `C7N` afterwards, whether the exception is swallowed) -/",
           f"def ctxExitPair (self : Nat) (excRaised : Bool) (c7n : Option Nat) : Option Nat × Bool :=\n  {ctx_block(exit_.body, 'c7n', True, _declares_global(exit_, 'C7N'), helpers)}\n"]
    # the module-level initial value
    init_val = None
    for st in mod.body:
        if isinstance(st, ast.Assign) and len(st.targets) == 1 and isinstance(st.targets[0], ast.Name) \
                and st.targets[0].id == "C7N":
            init_val = _c7n_value(st.value)
    if init_val is None:
        raise TranslationError("module global C7N not found")
    out.append(f"def c7nInitial : Option Nat := {init_val}\n")
    # the runner
    rcls = find_class(mod, "C7N_Interpreted_Runner")
    ev = find_func(rcls.body, "evaluate")
    brackets = False
    hoisted = {}
    singles = _single_assignments(ev)
    for st in ev.body:      # `ctx = C7NContext(filter=filter)` as a top-level statement of evaluate, bound once
        if isinstance(st, (ast.Assign, ast.AnnAssign)):
            t = st.targets[0] if isinstance(st, ast.Assign) else st.target
            if isinstance(t, ast.Name) and t.id in singles and st.value is not None:
                hoisted[t.id] = st.value
    for node in ast.walk(ev):
        if isinstance(node, ast.With) and len(node.items) == 1:
            ce = node.items[0].context_expr
            if isinstance(ce, ast.Name) and ce.id in hoisted:
                ce = hoisted[ce.id]
            if (isinstance(ce, ast.Call) and _dotted(ce.func) == "C7NContext" and
                    ((len(ce.keywords) == 1 and ce.keywords[0].arg == "filter" and ast.unparse(ce.keywords[0].value) == "filter")
                     or (len(ce.args) == 1 and ast.unparse(ce.args[0]) == "filter"))):
                # the evaluation is a statement of the block itself - `v = <e>.evaluate(context)` or `return <e>.evaluate(context)`
                # (leaving the block by `return` runs __exit__ first, like falling off its end) -, not deferred into a
                # lambda / nested def / generator, and no evaluation happens outside the bracket
                inside = [c for c in _eval_calls(node.body)]
                if inside and len(inside) == len(_eval_calls(ev.body)):
                    brackets = True
    out.append("/-- `C7N_Interpreted_Runner.evaluate` runs the evaluation inside `with C7NContext(filter=filter)` -/")
    out.append(f"def runnerBrackets : Bool := {'true' if brackets else 'false'}\n")
    return out


# ---- tables ------------------------------------------------------------------------------------------------------

def _str_const(e) -> str:
    if isinstance(e, ast.Constant) and isinstance(e.value, str):
        return e.value
    if isinstance(e, ast.Call) and _dotted(e.func) in ("celtypes.StringType", "StringType") and len(e.args) == 1:
        return _str_const(e.args[0])
    raise TranslationError(f"string constant expected: {ast.unparse(e)[:50]}")


def _literal_table(d) -> list:
    """`{5: (...), 6: (...)}` written out: every key is the length of its tuple of string constants"""
    if not (isinstance(d, ast.Dict) and d.keys and all(isinstance(v, ast.Tuple) for v in d.values)):
        raise TranslationError("arn_split: the table is not a literal {n: (names…)}")
    ts = [[_str_const(x) for x in t.elts] for t in d.values]
    for k, t in zip(d.keys, ts):
        if not (isinstance(k, ast.Constant) and type(k.value) is int and k.value == len(t)):
            raise TranslationError("arn_split: field_names entry not keyed by the length of its tuple")
    if len({len(t) for t in ts}) != len(ts):
        raise TranslationError("arn_split: two entries with the same key")
    return ts


def _arn_table_constant(mod: ast.Module, arn: ast.FunctionDef):
    """The table of `arn_split` reached through ONE level of module-level constant: a name the function only reads as
    `NAME[…]`, that is not a parameter/local of it, is bound exactly once in the whole module - by a top-level
    `NAME = {…}` / `NAME: T = {…}` with a literal table, before nothing else can see it change: no other store/del/global/
    import/def of the name anywhere, and EVERY other mention of it in the module is a read `NAME[…]` (so no alias, no call
    that receives it, no `.update`/`.pop`/`NAME[k] = …`/`del NAME[k]`; the values are tuples of strings, immutable)."""
    parent = {}
    for n in ast.walk(mod):
        for c in ast.iter_child_nodes(n):
            parent[c] = n
    local = {a.arg for a in arn.args.args + arn.args.kwonlyargs + arn.args.posonlyargs}
    for n in ast.walk(arn):
        if isinstance(n, ast.Name) and not isinstance(n.ctx, ast.Load):
            local.add(n.id)
        if isinstance(n, (ast.Global, ast.Nonlocal)):
            raise TranslationError("arn_split: global/nonlocal declaration")
    cands = sorted({n.value.id for n in ast.walk(arn) if isinstance(n, ast.Subscript) and isinstance(n.value, ast.Name)
                    and n.value.id not in local})
    if len(cands) != 1:
        return None
    name = cands[0]
    binds = [st for st in mod.body
             if (isinstance(st, ast.Assign) and len(st.targets) == 1 and isinstance(st.targets[0], ast.Name) and st.targets[0].id == name)
             or (isinstance(st, ast.AnnAssign) and isinstance(st.target, ast.Name) and st.target.id == name and st.value is not None)]
    if len(binds) != 1:
        raise TranslationError(f"arn_split: {name} is not bound exactly once at module level")
    for n in ast.walk(mod):
        if isinstance(n, ast.Name) and n.id == name:
            if isinstance(n.ctx, ast.Load):
                p = parent.get(n)
                if not (isinstance(p, ast.Subscript) and p.value is n and isinstance(p.ctx, ast.Load)):
                    raise TranslationError(f"arn_split: {name} is used other than by reading {name}[…]")
            elif parent.get(n) is not binds[0]:
                raise TranslationError(f"arn_split: {name} is re-bound")
        elif isinstance(n, (ast.Global, ast.Nonlocal)) and name in n.names:
            raise TranslationError(f"arn_split: `global {name}`")
        elif isinstance(n, ast.alias) and (n.asname or n.name.split(".")[0]) == name:
            raise TranslationError(f"arn_split: {name} is also imported")
        elif isinstance(n, (ast.FunctionDef, ast.AsyncFunctionDef, ast.ClassDef)) and n.name == name:
            raise TranslationError(f"arn_split: {name} is also a def/class")
        elif isinstance(n, ast.arg) and n.arg == name:
            raise TranslationError(f"arn_split: {name} is also a parameter name")
        elif isinstance(n, ast.ExceptHandler) and n.name == name:
            raise TranslationError(f"arn_split: {name} is also bound by an except clause")
        elif isinstance(n, ast.Constant) and n.value == name:
            raise TranslationError(f"arn_split: the name {name!r} occurs as a string (globals()/setattr?)")
        elif type(n).__name__ in ("MatchAs", "MatchStar", "MatchMapping") and getattr(n, "name", getattr(n, "rest", None)) == name:
            raise TranslationError(f"arn_split: {name} is bound by a match pattern")
    return _literal_table(binds[0].value)


def gen_tables(mod: ast.Module) -> List[str]:
    out = []
    # arn_split
    arn = find_func(mod.body, "arn_split")
    tuples = None
    sep = prefix = None
    for node in ast.walk(arn):
        if isinstance(node, ast.DictComp):
            it = node.generators[0].iter
            if isinstance(it, (ast.List, ast.Tuple)):
                tuples = [[_str_const(x) for x in t.elts] for t in it.elts if isinstance(t, ast.Tuple)]
                if ast.unparse(node.key).replace(" ", "") != f"len({ast.unparse(node.generators[0].target)})":
                    raise TranslationError("arn_split: field_names is not keyed by len(names)")
        if isinstance(node, ast.Dict) and node.keys and all(isinstance(v, ast.Tuple) for v in node.values) and tuples is None:
            # the table written out: {5: (...), 6: (...)} - every key must be the length of its tuple
            ts = [[_str_const(x) for x in t.elts] for t in node.values]
            for k, t in zip(node.keys, ts):
                if not (isinstance(k, ast.Constant) and k.value == len(t)):
                    raise TranslationError("arn_split: field_names entry not keyed by the length of its tuple")
            tuples = ts
        if isinstance(node, ast.Call) and isinstance(node.func, ast.Attribute) and node.func.attr == "split" \
                and ast.unparse(node.func.value) == "arn" and len(node.args) == 1:
            sep = _str_const(node.args[0])
        if isinstance(node, ast.Compare) and isinstance(node.left, ast.Name) and node.left.id == "prefix" \
                and len(node.ops) == 1 and isinstance(node.ops[0], ast.NotEq):
            prefix = _str_const(node.comparators[0])
    if tuples is None:
        tuples = _arn_table_constant(mod, arn)
    if tuples is None or sep is None or prefix is None:
        raise TranslationError("arn_split: field_names / split / prefix test not found")
    out.append("def arnFieldNames : List (List String) := " +
               lean_list([lean_list([lean_str(x) for x in t]) for t in tuples]))
    out.append(f"def arnSep : String := {lean_str(sep)}")
    out.append(f"def arnPrefix : String := {lean_str(prefix)}\n")
    # marked_key
    mk = find_func(mod.body, "marked_key")
    splits = []
    strips = False
    keys = []
    for node in ast.walk(mk):
        if isinstance(node, ast.Call) and isinstance(node.func, ast.Attribute) and node.func.attr in ("split", "rsplit"):
            a = list(node.args)
            if len(a) == 1 and len(node.keywords) == 1 and node.keywords[0].arg == "maxsplit":
                a.append(node.keywords[0].value)
            elif node.keywords:
                raise TranslationError("marked_key: split call shape")
            if len(a) == 2 and isinstance(a[1], ast.Constant):
                splits.append((node.lineno, node.col_offset, node.func.attr, _str_const(a[0]), a[1].value))
                if isinstance(node.func.value, ast.Call) and isinstance(node.func.value.func, ast.Attribute) \
                        and node.func.value.func.attr == "strip" and not node.func.value.args:
                    strips = True
            else:
                raise TranslationError("marked_key: split call shape")
        if isinstance(node, ast.Dict):
            keys = [_str_const(k) for k in node.keys]
    splits.sort()
    out.append("def markedSplits : List (String × String × Nat) := " +
               lean_list([f"({lean_str(m)}, {lean_str(s)}, {n})" for (_, _, m, s, n) in splits]))
    out.append(f"def markedStripsTarget : Bool := {'true' if strips else 'false'}")
    out.append("def markedResultKeys : List String := " + lean_list([lean_str(k) for k in keys]) + "\n")
    # parse_cidr / size_parse_cidr / ComparableVersion
    pc = find_func(mod.body, "parse_cidr")
    caught = []
    for node in ast.walk(pc):
        if isinstance(node, ast.ExceptHandler):
            t = node.type
            caught += [ast.unparse(x) for x in (t.elts if isinstance(t, ast.Tuple) else [t])]
    out.append("def parseCidrCaught : List String := " + lean_list([lean_str(c) for c in caught]))
    cv = find_class(mod, "ComparableVersion")
    out.append("def comparableVersionBases : List String := " + lean_list([lean_str(ast.unparse(b)) for b in cv.bases]))
    out.append("def comparableVersionOverrides : List String := " +
               lean_list([lean_str(s.name) for s in cv.body if isinstance(s, ast.FunctionDef)]))
    out.append("")
    # FUNCTIONS / DECLARATIONS
    fnames, dnames = None, None
    for st in mod.body:
        tgt = st.target if isinstance(st, ast.AnnAssign) else (st.targets[0] if isinstance(st, ast.Assign) else None)
        if isinstance(tgt, ast.Name) and tgt.id == "FUNCTIONS" and isinstance(st.value, ast.DictComp):
            dc = st.value
            if ast.unparse(dc.key) != "f.__name__":
                raise TranslationError("FUNCTIONS is not keyed by f.__name__")
            fnames = [ast.unparse(x) for x in dc.generators[0].iter.elts]
        if isinstance(tgt, ast.Name) and tgt.id == "DECLARATIONS" and isinstance(st.value, ast.Dict):
            dnames = [_str_const(k) for k in st.value.keys]
    if fnames is None or dnames is None:
        raise TranslationError("FUNCTIONS / DECLARATIONS not found")
    out.append("def functionNames : List String := " + lean_list([lean_str(x) for x in fnames]))
    out.append("def declarationNames : List String := " + lean_list([lean_str(x) for x in dnames]) + "\n")
    return out


def gen_c7n() -> str:
    m = parse("src/celpy/c7nlib.py")
    out = [HEADER.format(src="src/celpy/c7nlib.py (set helpers, normalize, glob, C7NContext, tables)"),
           "import Cel.Model.C7n\nnamespace Cel.Gen.C7n\nopen Cel.C7n (Str ofString pySet pyAnd pySub pyBool pyLen pyIsDisjoint pyIsSubset pyLower pyStrip fnmatch fnmatchcase celBool celInt celStr\n  pyFirst Tag Tag.get Cidr cidrTruthy cidrIsNone cidrIsNet cidrPrefixlen)\n"]
    for n in ("intersect", "difference", "unique_size", "normalize", "glob"):
        out.append(one_liner(m, n))
    out += gen_key(m)
    out += gen_size(m)
    out += gen_ctx(m)
    out += gen_tables(m)
    out.append("end Cel.Gen.C7n\n")
    return "\n".join(out)


GENERATORS = {"C7n": gen_c7n}
