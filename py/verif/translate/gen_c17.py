"""Generator for Gen/C7n.lean (C17): the small pure helpers and tables of src/celpy/c7nlib.py.

Translated every run from the working tree:
  * the one-line helpers `intersect`, `difference`, `unique_size`, `normalize`, `glob` (expression dialect
    below: `set`, `bool`, `len`, `&`, `-`, `.lower()`, `.strip()`, `fnmatch.fnmatch[case]`, the celtypes wrappers);
  * `C7NContext.__enter__/__exit__` as state transformers of the module global `C7N`;
  * whether `C7N_Interpreted_Runner.evaluate` brackets the evaluation with `C7NContext(filter=filter)`;
  * tables/constants: the `field_names` tuples, separator and prefix of `arn_split`; the `"Key"`/`"Value"` names
    of `key`; the split calls, the strip and the result keys of `marked_key`; the exceptions `parse_cidr`
    turns into None; the class test of `size_parse_cidr`; `ComparableVersion`'s base class; the names bound
    by FUNCTIONS / DECLARATIONS.
Anything outside the subset raises TranslationError (handled like a broken bridge).
"""
from __future__ import annotations
import ast
from typing import List

from .py2lean import TranslationError, find_func, find_class, strip_doc, is_logger_call, lean_str, lean_list
from .common import parse, HEADER

SIGS = {
    "intersect": ("{α : Type} [DecidableEq α] (left right : List α)", "Bool"),
    "difference": ("{α : Type} [DecidableEq α] (left right : List α)", "Bool"),
    "unique_size": ("{α : Type} [DecidableEq α] (collection : List α)", "Nat"),
    "normalize": ("(string : Str)", "Str"),
    "glob": ("(text pattern : Str)", "Bool"),
}
PARAMS = {"intersect": ["left", "right"], "difference": ["left", "right"], "unique_size": ["collection"],
          "normalize": ["string"], "glob": ["text", "pattern"]}


def _dotted(e) -> str:
    if isinstance(e, ast.Name):
        return e.id
    if isinstance(e, ast.Attribute):
        return _dotted(e.value) + "." + e.attr
    raise TranslationError(f"callee {ast.dump(e)[:60]}")


def expr(e, params: List[str]) -> str:
    if isinstance(e, ast.Name):
        if e.id not in params:
            raise TranslationError(f"free name {e.id}")
        return e.id
    if isinstance(e, ast.BinOp):
        l, r = expr(e.left, params), expr(e.right, params)
        if isinstance(e.op, ast.BitAnd):
            return f"(pyAnd {l} {r})"
        if isinstance(e.op, ast.Sub):
            return f"(pySub {l} {r})"
        raise TranslationError(f"binop {type(e.op).__name__}")
    if isinstance(e, ast.Call):
        if e.keywords:
            raise TranslationError("keyword arguments")
        fn = e.func
        if isinstance(fn, ast.Attribute) and not e.args and fn.attr in ("lower", "strip"):
            inner = expr(fn.value, params)
            return f"({'pyLower' if fn.attr == 'lower' else 'pyStrip'} {inner})"
        name = _dotted(fn)
        args = [expr(a, params) for a in e.args]
        one = {"set": "pySet", "bool": "pyBool", "len": "pyLen",
               "celtypes.BoolType": "celBool", "celtypes.IntType": "celInt", "celtypes.StringType": "celStr"}
        if name in one and len(args) == 1:
            return f"({one[name]} {args[0]})"
        if name == "cast" and len(e.args) == 2:
            return args[1] if False else expr(e.args[1], params)
        two = {"fnmatch.fnmatch": "fnmatch", "fnmatch.fnmatchcase": "fnmatchcase"}
        if name in two and len(args) == 2:
            return f"({two[name]} {args[0]} {args[1]})"
        raise TranslationError(f"call {name}/{len(args)}")
    raise TranslationError(f"expression {type(e).__name__}")


def one_liner(mod: ast.Module, name: str) -> str:
    fn = find_func(mod.body, name)
    params = [a.arg for a in fn.args.args]
    if params != PARAMS[name] or fn.args.vararg or fn.args.kwarg or fn.args.kwonlyargs or fn.args.defaults:
        raise TranslationError(f"{name}: parameters {params}")
    if fn.decorator_list:
        raise TranslationError(f"{name}: decorator")
    body = [s for s in strip_doc(fn.body) if not is_logger_call(s)]
    # single-assignment locals are inlined: `x = e; return f(x)`
    env = {}
    for st in body[:-1]:
        if isinstance(st, ast.Assign) and len(st.targets) == 1 and isinstance(st.targets[0], ast.Name):
            env[st.targets[0].id] = st.value
        elif isinstance(st, ast.AnnAssign) and isinstance(st.target, ast.Name) and st.value is not None:
            env[st.target.id] = st.value
        else:
            raise TranslationError(f"{name}: statement {type(st).__name__}")
    if not body or not isinstance(body[-1], ast.Return) or body[-1].value is None:
        raise TranslationError(f"{name}: body is not `return <expr>`")

    class Inline(ast.NodeTransformer):
        def visit_Name(self, node):
            if node.id in env:
                return self.visit(env[node.id])
            return node
    ret = Inline().visit(body[-1].value)
    sig, res = SIGS[name]
    return f"def {name} {sig} : {res} :=\n  {expr(ret, params)}\n"


# ---- C7NContext -----------------------------------------------------------------------------------------------

def _exc_cond(test) -> str:
    """conditions on `exc_type` → Lean Bool expression on `excRaised`"""
    if isinstance(test, ast.Name) and test.id in ("exc_type", "exc_value"):
        return "excRaised"
    if isinstance(test, ast.UnaryOp) and isinstance(test.op, ast.Not):
        return f"(!{_exc_cond(test.operand)})"
    if (isinstance(test, ast.Compare) and len(test.ops) == 1 and isinstance(test.left, ast.Name)
            and test.left.id in ("exc_type", "exc_value") and isinstance(test.comparators[0], ast.Constant)
            and test.comparators[0].value is None):
        if isinstance(test.ops[0], ast.Is):
            return "(!excRaised)"
        if isinstance(test.ops[0], ast.IsNot):
            return "excRaised"
    raise TranslationError(f"condition {ast.unparse(test)[:60]}")


def _c7n_value(v) -> str:
    if isinstance(v, ast.Name) and v.id == "self":
        return "(some self)"
    if isinstance(v, ast.Constant) and v.value is None:
        return "none"
    if isinstance(v, ast.Call) and isinstance(v.func, ast.Name) and v.func.id == "cast" and len(v.args) == 2:
        return _c7n_value(v.args[1])
    if isinstance(v, ast.Name) and v.id == "C7N":
        return "c7n"
    raise TranslationError(f"value assigned to C7N: {ast.unparse(v)[:60]}")


def ctx_block(stmts, cur: str, allow_cond: bool) -> str:
    """Lean expression of type `Option Nat × Bool`: (C7N afterwards, return value truthy)"""
    stmts = [s for s in strip_doc(stmts) if not is_logger_call(s)]
    for i, st in enumerate(stmts):
        if isinstance(st, (ast.Global, ast.Pass)):
            continue
        if isinstance(st, ast.Assign) and len(st.targets) == 1 and isinstance(st.targets[0], ast.Name) \
                and st.targets[0].id == "C7N":
            v = _c7n_value(st.value)
            cur = cur if v == "c7n" else v
            continue
        if isinstance(st, ast.Return):
            if st.value is None or (isinstance(st.value, ast.Constant) and st.value.value in (None, False)):
                return f"({cur}, false)"
            if isinstance(st.value, ast.Constant) and st.value.value is True:
                return f"({cur}, true)"
            raise TranslationError("return value of a context method")
        if isinstance(st, ast.If) and allow_cond:
            c = _exc_cond(st.test)
            rest = stmts[i + 1:]
            thn = ctx_block(list(st.body) + rest, cur, allow_cond)
            els = ctx_block(list(st.orelse) + rest, cur, allow_cond)
            return f"(if {c} then {thn} else {els})"
        raise TranslationError(f"statement {type(st).__name__} in a context method")
    return f"({cur}, false)"


def gen_ctx(mod: ast.Module) -> List[str]:
    cls = find_class(mod, "C7NContext")
    enter = find_func(cls.body, "__enter__")
    exit_ = find_func(cls.body, "__exit__")
    if [a.arg for a in enter.args.args] != ["self"] or len(exit_.args.args) != 4:
        raise TranslationError("C7NContext method signatures")
    init = find_func(cls.body, "__init__")
    ok_init = any(isinstance(s, ast.Assign) and ast.unparse(s).replace(" ", "") == "self.filter=filter" for s in init.body)
    if not ok_init:
        raise TranslationError("C7NContext.__init__ does not store `filter`")
    out = ["/-- `C7NContext.__enter__`: value of the module global `C7N` afterwards -/",
           f"def ctxEnter (self : Nat) (c7n : Option Nat) : Option Nat :=\n  ({ctx_block(enter.body, 'c7n', False)}).1\n",
           "/-- `C7NContext.__exit__`: (value of `C7N` afterwards, whether the exception is swallowed) -/",
           f"def ctxExitPair (self : Nat) (excRaised : Bool) (c7n : Option Nat) : Option Nat × Bool :=\n  {ctx_block(exit_.body, 'c7n', True)}\n"]
    # the module-level initial value
    init_val = None
    for st in mod.body:
        if isinstance(st, ast.Assign) and len(st.targets) == 1 and isinstance(st.targets[0], ast.Name) \
                and st.targets[0].id == "C7N":
            init_val = _c7n_value(st.value)
    if init_val is None:
        raise TranslationError("module global C7N not found")
    out.append(f"def c7nInitial : Option Nat := {init_val}\n")
    # the runner
    rcls = find_class(mod, "C7N_Interpreted_Runner")
    ev = find_func(rcls.body, "evaluate")
    brackets = False
    for node in ast.walk(ev):
        if isinstance(node, ast.With) and len(node.items) == 1:
            ce = node.items[0].context_expr
            if (isinstance(ce, ast.Call) and _dotted(ce.func) == "C7NContext" and
                    ((len(ce.keywords) == 1 and ce.keywords[0].arg == "filter" and ast.unparse(ce.keywords[0].value) == "filter")
                     or (len(ce.args) == 1 and ast.unparse(ce.args[0]) == "filter"))):
                inner = ast.unparse(ast.Module(body=node.body, type_ignores=[]))
                if ".evaluate(context)" in inner:
                    brackets = True
    out.append("/-- `C7N_Interpreted_Runner.evaluate` runs the evaluation inside `with C7NContext(filter=filter)` -/")
    out.append(f"def runnerBrackets : Bool := {'true' if brackets else 'false'}\n")
    return out


# ---- tables ------------------------------------------------------------------------------------------------------

def _str_const(e) -> str:
    if isinstance(e, ast.Constant) and isinstance(e.value, str):
        return e.value
    if isinstance(e, ast.Call) and _dotted(e.func) in ("celtypes.StringType", "StringType") and len(e.args) == 1:
        return _str_const(e.args[0])
    raise TranslationError(f"string constant expected: {ast.unparse(e)[:50]}")


def gen_tables(mod: ast.Module) -> List[str]:
    out = []
    # arn_split
    arn = find_func(mod.body, "arn_split")
    tuples = None
    sep = prefix = None
    for node in ast.walk(arn):
        if isinstance(node, ast.DictComp):
            it = node.generators[0].iter
            if isinstance(it, (ast.List, ast.Tuple)):
                tuples = [[_str_const(x) for x in t.elts] for t in it.elts if isinstance(t, ast.Tuple)]
                if ast.unparse(node.key).replace(" ", "") != f"len({ast.unparse(node.generators[0].target)})":
                    raise TranslationError("arn_split: field_names is not keyed by len(names)")
        if isinstance(node, ast.Call) and isinstance(node.func, ast.Attribute) and node.func.attr == "split" \
                and ast.unparse(node.func.value) == "arn" and len(node.args) == 1:
            sep = _str_const(node.args[0])
        if isinstance(node, ast.Compare) and isinstance(node.left, ast.Name) and node.left.id == "prefix" \
                and len(node.ops) == 1 and isinstance(node.ops[0], ast.NotEq):
            prefix = _str_const(node.comparators[0])
    if tuples is None or sep is None or prefix is None:
        raise TranslationError("arn_split: field_names / split / prefix test not found")
    out.append("def arnFieldNames : List (List String) := " +
               lean_list([lean_list([lean_str(x) for x in t]) for t in tuples]))
    out.append(f"def arnSep : String := {lean_str(sep)}")
    out.append(f"def arnPrefix : String := {lean_str(prefix)}\n")
    # key
    kf = find_func(mod.body, "key")
    consts = {}
    for st in kf.body:
        if isinstance(st, ast.Assign) and isinstance(st.targets[0], ast.Name):
            try:
                consts[st.targets[0].id] = _str_const(st.value)
            except TranslationError:
                pass
    if "key" not in consts or "value" not in consts:
        raise TranslationError("key(): the `key`/`value` name constants were not found")
    out.append(f"def tagKeyName : String := {lean_str(consts['key'])}")
    out.append(f"def tagValueName : String := {lean_str(consts['value'])}")
    out.append("")
    # marked_key
    mk = find_func(mod.body, "marked_key")
    splits = []
    strips = False
    keys = []
    for node in ast.walk(mk):
        if isinstance(node, ast.Call) and isinstance(node.func, ast.Attribute) and node.func.attr in ("split", "rsplit"):
            a = node.args
            if len(a) == 2 and isinstance(a[1], ast.Constant):
                splits.append((node.lineno, node.col_offset, node.func.attr, _str_const(a[0]), a[1].value))
                if isinstance(node.func.value, ast.Call) and isinstance(node.func.value.func, ast.Attribute) \
                        and node.func.value.func.attr == "strip" and not node.func.value.args:
                    strips = True
            else:
                raise TranslationError("marked_key: split call shape")
        if isinstance(node, ast.Dict):
            keys = [_str_const(k) for k in node.keys]
    splits.sort()
    out.append("def markedSplits : List (String × String × Nat) := " +
               lean_list([f"({lean_str(m)}, {lean_str(s)}, {n})" for (_, _, m, s, n) in splits]))
    out.append(f"def markedStripsTarget : Bool := {'true' if strips else 'false'}")
    out.append("def markedResultKeys : List String := " + lean_list([lean_str(k) for k in keys]) + "\n")
    # parse_cidr / size_parse_cidr / ComparableVersion
    pc = find_func(mod.body, "parse_cidr")
    caught = []
    for node in ast.walk(pc):
        if isinstance(node, ast.ExceptHandler):
            t = node.type
            caught += [ast.unparse(x) for x in (t.elts if isinstance(t, ast.Tuple) else [t])]
    out.append("def parseCidrCaught : List String := " + lean_list([lean_str(c) for c in caught]))
    cv = find_class(mod, "ComparableVersion")
    out.append("def comparableVersionBases : List String := " + lean_list([lean_str(ast.unparse(b)) for b in cv.bases]))
    out.append("def comparableVersionOverrides : List String := " +
               lean_list([lean_str(s.name) for s in cv.body if isinstance(s, ast.FunctionDef)]))
    out.append("")
    # FUNCTIONS / DECLARATIONS
    fnames, dnames = None, None
    for st in mod.body:
        tgt = st.target if isinstance(st, ast.AnnAssign) else (st.targets[0] if isinstance(st, ast.Assign) else None)
        if isinstance(tgt, ast.Name) and tgt.id == "FUNCTIONS" and isinstance(st.value, ast.DictComp):
            dc = st.value
            if ast.unparse(dc.key) != "f.__name__":
                raise TranslationError("FUNCTIONS is not keyed by f.__name__")
            fnames = [ast.unparse(x) for x in dc.generators[0].iter.elts]
        if isinstance(tgt, ast.Name) and tgt.id == "DECLARATIONS" and isinstance(st.value, ast.Dict):
            dnames = [_str_const(k) for k in st.value.keys]
    if fnames is None or dnames is None:
        raise TranslationError("FUNCTIONS / DECLARATIONS not found")
    out.append("def functionNames : List String := " + lean_list([lean_str(x) for x in fnames]))
    out.append("def declarationNames : List String := " + lean_list([lean_str(x) for x in dnames]) + "\n")
    return out


def gen_c7n() -> str:
    m = parse("src/celpy/c7nlib.py")
    out = [HEADER.format(src="src/celpy/c7nlib.py (set helpers, normalize, glob, C7NContext, tables)"),
           "import Cel.Model.C7n\nnamespace Cel.Gen.C7n\nopen Cel.C7n (Str pySet pyAnd pySub pyBool pyLen pyLower pyStrip fnmatch fnmatchcase celBool celInt celStr)\n"]
    for n in ("intersect", "difference", "unique_size", "normalize", "glob"):
        out.append(one_liner(m, n))
    out += gen_ctx(m)
    out += gen_tables(m)
    out.append("end Cel.Gen.C7n\n")
    return "\n".join(out)


GENERATORS = {"C7n": gen_c7n}
