"""Generator for Gen/Names.lean (C12): the decision structure of name resolution in evaluation.py,
re-read from the source on every run.

  * Referent.value                  -> the preference order (container, value, annotation) as a Lean function
  * NameContainer.load_values       -> the statements of the expansion loop (setdefault / container creation /
                                       value assignment on the final component)
  * NameContainer.find_name         -> the branch order (empty path, missing head, end of path, container,
                                       mapping value via dict_find_name, TypeError)
  * NameContainer.resolve_name      -> package loop from the longest prefix, parent chain, which exceptions mean
                                       "no match", KeyError when nothing matched, `max` by path length
  * Activation.resolve_variable / __getattr__, Evaluator.member_dot (NameContainer branch)
  * macro variable binding: Evaluator.sub_evaluator / set_activation and macro_* use nested_activation

Shapes outside the recognised ones raise TranslationError (handled like a broken bridge).
"""
from __future__ import annotations
import ast
from typing import List

from .py2lean import TranslationError, find_func, find_class, strip_doc, is_logger_call, lean_str, lean_list
from .common import parse, HEADER, exc_names


def need(c: bool, msg: str):
    if not c:
        raise TranslationError(msg)


def body_of(fn) -> List[ast.stmt]:
    out = []
    for s in strip_doc(fn.body):
        if is_logger_call(s):
            continue
        if isinstance(s, ast.Expr) and isinstance(s.value, ast.Call) and "logger" in ast.unparse(s.value.func):
            continue
        out.append(s)
    return out


def lean_bool(b: bool) -> str:
    return "true" if b else "false"


def tr_referent_value(ev: ast.Module) -> str:
    cls = find_class(ev, "Referent")
    getter = None
    for n in cls.body:
        if isinstance(n, ast.FunctionDef) and n.name == "value" and any(ast.unparse(d) == "property" for d in n.decorator_list):
            getter = n
    need(getter is not None, "Referent.value property")
    b = body_of(getter)
    need(len(b) == 1 and isinstance(b[0], ast.If), "Referent.value: if/elif/else ladder")
    order = []
    node = b[0]
    while True:
        test = ast.unparse(node.test)
        ret = node.body[0]
        need(len(node.body) == 1 and isinstance(ret, ast.Return), "Referent.value: each branch returns")
        order.append((test, ast.unparse(ret.value)))
        if len(node.orelse) == 1 and isinstance(node.orelse[0], ast.If):
            node = node.orelse[0]
            continue
        need(len(node.orelse) == 1 and isinstance(node.orelse[0], ast.Return), "Referent.value: final else returns")
        order.append(("else", ast.unparse(node.orelse[0].value)))
        break
    table = {("self.container is not None", "self.container"): "container", ("self._value_set", "self._value"): "value",
             ("else", "self.annotation"): "annotation"}
    names = []
    for t in order:
        need(t in table, f"Referent.value: unrecognised branch {t}")
        names.append(table[t])
    # as a function of (has container, value set): which field is returned
    lines = ["/-- `Referent.value`, translated: which field the property returns -/",
             "def referentValue (hasContainer valueSet : Bool) : String :="]
    expr = ""
    for nm in names[:-1]:
        cond = {"container": "hasContainer", "value": "valueSet"}[nm]
        expr += f"if {cond} then {lean_str(nm)} else "
    expr += lean_str(names[-1])
    lines.append("  " + expr)
    setter = [n for n in cls.body if isinstance(n, ast.FunctionDef) and n.name == "value" and n is not getter]
    need(len(setter) == 1, "Referent.value setter")
    src = ast.unparse(setter[0])
    lines.append(f"def valueSetterSetsFlag : Bool := {lean_bool('self._value = ref_to' in src and 'self._value_set = True' in src)}")
    return "\n".join(lines) + "\n"


def tr_load_values(ev: ast.Module) -> str:
    cls = find_class(ev, "NameContainer")
    out = []
    for fname, final_stmts in (("load_values", ["context.setdefault(final, Referent())", "context[final].value = refers_to"]),
                               ("load_annotations", ["context.setdefault(final, Referent(refers_to))"])):
        fn = find_func(cls.body, fname)
        b = body_of(fn)
        need(len(b) == 1 and isinstance(b[0], ast.For), f"{fname}: one loop over the items")
        lb = [s for s in b[0].body if not is_logger_call(s)]
        src = [ast.unparse(s) for s in lb]
        need(any(s.startswith("if not self.extended_name_path.match(name)") for s in src), f"{fname}: name syntax check")
        need("context = self" in src, f"{fname}: starts at this container")
        need("*path, final = self.ident_pat.findall(name)" in src, f"{fname}: path split")
        loops = [s for s in lb if isinstance(s, ast.For)]
        need(len(loops) == 1, f"{fname}: inner loop over the path")
        inner = [ast.unparse(s) for s in loops[0].body]
        need(inner == ["ref = context.setdefault(name, Referent())",
                       "if ref.container is None:\n    ref.container = NameContainer(parent=self.parent)",
                       "context = ref.container"], f"{fname}: expansion loop body {inner}")
        tail = src[src.index(ast.unparse(loops[0])) + 1:]
        need(tail == final_stmts, f"{fname}: final component statements {tail}")
        out.append(f"def {fname}_expands_dotted_names : Bool := true")
    return "\n".join(out) + "\n"


def tr_find_name(ev: ast.Module) -> str:
    cls = find_class(ev, "NameContainer")
    fn = find_func(cls.body, "find_name")
    b = body_of(fn)
    src = [ast.unparse(s) for s in b]
    steps = []
    for s in b:
        u = ast.unparse(s)
        if isinstance(s, ast.If) and ast.unparse(s.test) == "not path":
            need("referent.value = self" in u and "return referent" in u, "find_name: empty path returns this container")
            steps.append("empty-path")
        elif u == "head, *tail = path":
            steps.append("split")
        elif isinstance(s, ast.Try):
            need(ast.unparse(s.body[0]) == "sub_context = self[head]" and exc_names(s.handlers[0].type) == ["KeyError"]
                 and "raise NameContainer.NotFound(path)" in u, "find_name: missing head raises NotFound")
            steps.append("lookup-head")
        elif isinstance(s, ast.If) and ast.unparse(s.test) == "not tail":
            need(ast.unparse(s.body[-1]) == "return sub_context", "find_name: end of path returns the referent")
            steps.append("end-of-path")
        elif isinstance(s, ast.AnnAssign):
            continue
        elif isinstance(s, ast.If) and ast.unparse(s.test) == "sub_context.container":
            need(ast.unparse(s.body[-1]) == "return sub_context.container.find_name(tail)", "find_name: container recursion")
            steps.append("container")
            need(len(s.orelse) == 1 and isinstance(s.orelse[0], ast.If), "find_name: elif mapping value")
            e = s.orelse[0]
            t = ast.unparse(e.test)
            need(t.startswith("sub_context._value_set and isinstance(sub_context.value,") and "MapType" in t and "dict" in t,
                 "find_name: mapping-value test")
            need("NameContainer.dict_find_name(" in ast.unparse(e) and "return item" in ast.unparse(e), "find_name: dict_find_name branch")
            steps.append("mapping-value")
            need(len(e.orelse) == 1 and isinstance(e.orelse[0], ast.Raise) and "TypeError" in ast.unparse(e.orelse[0]),
                 "find_name: otherwise TypeError")
            steps.append("type-error")
        else:
            raise TranslationError(f"find_name: unexpected statement {u[:60]}")
    out = ["def findNameSteps : List String := " + lean_list([lean_str(s) for s in steps])]
    # dict_find_name: key lookup, KeyError -> NotFound, end of path wraps the value
    df = find_func(cls.body, "dict_find_name")
    u = ast.unparse(df)
    ok = ("head, *tail = path" in u and "[head], tail)" in u and "except KeyError" in u
          and "raise NameContainer.NotFound(path)" in u and "referent.value = cast(celpy.celtypes.MapType, some_dict)" in u)
    out.append(f"def dictFindNavigatesKeys : Bool := {lean_bool(ok)}")
    return "\n".join(out) + "\n"


def tr_resolve_name(ev: ast.Module) -> str:
    cls = find_class(ev, "NameContainer")
    fn = find_func(cls.body, "resolve_name")
    u = ast.unparse(fn)
    b = body_of(fn)
    facts = {
        "packageFirst": "target = self.ident_pat.findall(package) + ['']" in u and "target = ['']" in u,
        "shrinksFromTheEnd": "while not matches and target:" in u and "target = target[:-1]" in u,
        "walksParentChain": "for nc in self.parent_iter():" in u,
        "looksUpTargetPlusName": "package_ident: List[str] = target + [name]" in u and "nc.find_name(package_ident)" in u,
        "keyErrorWhenNoMatch": any(isinstance(s, ast.If) and ast.unparse(s.test) == "not matches" and len(s.body) == 1
                                   and ast.unparse(s.body[0]) == "raise KeyError(name)" for s in b),
        "longestMatch": "max(matches, key=lambda path_value: len(path_value[0]))" in u and "return best_match" in u,
    }
    skipped = []
    for node in ast.walk(fn):
        if isinstance(node, ast.Try):
            for h in node.handlers:
                need(all(isinstance(s, ast.Pass) or is_logger_call(s) or isinstance(s, ast.Expr) for s in h.body),
                     "resolve_name: handlers only skip the candidate")
                skipped += exc_names(h.type)
    out = [f"def resolve_{k} : Bool := {lean_bool(v)}" for k, v in facts.items()]
    out.append("def resolveSkips : List String := " + lean_list([lean_str(s) for s in skipped]))
    pi = ast.unparse(find_func(cls.body, "parent_iter"))
    out.append(f"def parentIterSelfFirst : Bool := {lean_bool(pi.index('yield self') < pi.index('yield from self.parent.parent_iter()'))}")
    return "\n".join(out) + "\n"


def tr_activation(ev: ast.Module) -> str:
    act = find_class(ev, "Activation")
    out = []
    rv = ast.unparse(find_func(act.body, "resolve_variable"))
    out.append(f"def resolveVariableUsesValue : Bool := {lean_bool('referent = self.identifiers.resolve_name(self.package, name)' in rv and 'referent.value)' in rv and 'except KeyError:' in rv and 'return self.functions[name]' in rv)}")
    ga = ast.unparse(find_func(act.body, "__getattr__"))
    ok = ("referent = self.identifiers.resolve_name(self.package, name)" in ga and "if referent._value_set:" in ga
          and "referent.value)" in ga and "if referent.container:\n" in ga and "return referent.container" in ga
          and "elif referent.annotation:" in ga)
    out.append(f"def getattrAgreesWithValue : Bool := {lean_bool(ok)}")
    na = ast.unparse(find_func(act.body, "nested_activation"))
    out.append(f"def nestedActivationChains : Bool := {lean_bool('based_on=self' in na and 'vars=vars' in na and 'package=self.package' in na)}")
    init = ast.unparse(find_func(act.body, "__init__"))
    out.append(f"def activationParentIsBasedOn : Bool := {lean_bool('NameContainer(parent=based_on.identifiers if based_on else None)' in init)}")
    out.append(f"def annotationsLoadedBeforeValues : Bool := {lean_bool(init.index('self.identifiers.load_annotations(annotations)') < init.index('self.identifiers.load_values(vars)'))}")
    evc = find_class(ev, "Evaluator")
    se = ast.unparse(find_func(evc.body, "sub_evaluator"))
    sa = ast.unparse(find_func(evc.body, "set_activation"))
    import re as _re
    m = _re.search(r"(\w+) = Evaluator\(ast, activation=self\.activation\)", se)
    out.append(f"def macroEvaluatorIsLocal : Bool := {lean_bool(bool(m) and (m.group(1) + '.local_scope = True') in se and ('return ' + m.group(1)) in se)}")
    out.append(f"def localScopeUsesNestedActivation : Bool := {lean_bool('if self.local_scope:' in sa and 'self.activation = self.base_activation.nested_activation(vars=values)' in sa)}")
    out.append(f"def topLevelLoadsIntoClone : Bool := {lean_bool('self.activation = self.base_activation.clone()' in sa and 'self.activation.identifiers.load_values(values)' in sa)}")
    bm = ast.unparse(find_func(evc.body, "build_macro_eval")) + ast.unparse(find_func(evc.body, "build_ss_macro_eval"))
    out.append(f"def macroBodyBindsIdentifier : Bool := {lean_bool(bm.count('nested_eval = self.sub_evaluator(ast=expr_tree)') == 2 and bm.count('nested_eval.evaluate({identifier: v})') == 2)}")
    ok = True
    for fname in ("macro_map", "macro_filter", "macro_exists_one", "macro_exists", "macro_all"):
        src = ast.unparse(find_func(ev.body, fname))
        ok = ok and "activation.nested_activation(vars={bind_variable: cast(Result, " in src
    out.append(f"def compiledMacrosUseNestedActivation : Bool := {lean_bool(ok)}")
    md = ast.unparse(find_func(evc.body, "member_dot"))
    ok = ("elif isinstance(member, NameContainer):" in md and "if property_name in member:" in md
          and "member[property_name].value)" in md)
    out.append(f"def memberDotOnNameContainer : Bool := {lean_bool(ok)}")
    nc = find_class(ev, "NameContainer")
    g = ast.unparse(find_func(nc.body, "get"))
    out.append(f"def nameContainerGetResolves : Bool := {lean_bool('return self.resolve_name(None, name).value' in g)}")
    tp = ast.unparse(find_func(find_class(ev, "Phase1Transpiler").body, "ident"))
    out.append(f"def transpiledIdentIsActivationAttr : Bool := {lean_bool('activation.${ident}' in tp)}")
    tmd = ast.unparse(find_func(find_class(ev, "Phase1Transpiler").body, "member_dot"))
    tmpl = "${left}.get('${right}')"
    out.append(f"def transpiledMemberDotIsGet : Bool := {lean_bool(tmpl in tmd)}")
    return "\n".join(out) + "\n"


def gen_names() -> str:
    ev = parse("src/celpy/evaluation.py")
    out = [HEADER.format(src="src/celpy/evaluation.py (Referent, NameContainer, Activation, Evaluator.sub_evaluator/set_activation/member_dot, macro_*)"),
           "namespace Cel.Gen.Names\n"]
    out.append(tr_referent_value(ev))
    out.append(tr_load_values(ev))
    out.append(tr_find_name(ev))
    out.append(tr_resolve_name(ev))
    out.append(tr_activation(ev))
    out.append("end Cel.Gen.Names\n")
    return "\n".join(out)


GENERATORS = {"Names": gen_names}
