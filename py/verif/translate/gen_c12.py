"""Generator for Gen/Names.lean (C12): the decision structure of name resolution in evaluation.py,
re-read from the source on every run.

  * NameContainer.load_values / load_annotations -> the statements of the expansion loop (setdefault / container
                                                   creation / value assignment on the final component)
  * NameContainer.parent_iter       -> this container first, then the parents
  * Evaluator.member_dot (NameContainer branch), the transpiled `activation.<ident>` / `.get('<f>')` templates
  * macro variable binding: Activation.nested_activation / __init__, Evaluator.sub_evaluator / set_activation,
    macro_* use nested_activation

Referent.value, find_name, dict_find_name, resolve_name, NameContainer.get, Activation.resolve_variable / __getattr__
are NOT recognised by shape any more: gen_c12_py.py dumps their abstract syntax and the bridge runs it (round 2).

Shapes outside the recognised ones raise TranslationError (handled like a broken bridge).
"""
from __future__ import annotations
import ast
import copy
from typing import List

from .py2lean import TranslationError, find_func, find_class, strip_doc, is_logger_call, lean_str, lean_list
from .common import parse, HEADER, exc_names


def need(c: bool, msg: str):
    if not c:
        raise TranslationError(msg)


def body_of(fn) -> List[ast.stmt]:
    out = []
    for s in strip_doc(fn.body):
        if is_logger_call(s):
            continue
        if isinstance(s, ast.Expr) and isinstance(s.value, ast.Call) and "logger" in ast.unparse(s.value.func):
            continue
        out.append(s)
    return out


def lean_bool(b: bool) -> str:
    return "true" if b else "false"


class _Renamer(ast.NodeTransformer):
    def __init__(self, table):
        self.table = table

    def visit_Name(self, node):
        if node.id in self.table:
            return ast.copy_location(ast.Name(id=self.table[node.id], ctx=node.ctx), node)
        return node

    def visit_ExceptHandler(self, node):
        self.generic_visit(node)
        if node.name in self.table:
            node.name = self.table[node.name]
        return node

    def visit_arg(self, node):
        if node.arg in self.table:
            node.arg = self.table[node.arg]
        return node


def normalise_locals(fn: ast.FunctionDef) -> ast.FunctionDef:
    """a copy of `fn` whose local variables (everything bound inside the body: assignment / for / with /
    except / lambda targets — not the parameters) are renamed L0, L1, … in order of first binding, so that
    the recognised shapes do not depend on how a local is spelled"""
    import copy
    fn = copy.deepcopy(fn)
    params = {a.arg for a in fn.args.args + fn.args.kwonlyargs}
    order: List[str] = []

    def bind(name):
        if name not in params and name not in order:
            order.append(name)

    for node in ast.walk(fn):
        if isinstance(node, ast.Name) and isinstance(node.ctx, ast.Store):
            bind(node.id)
        elif isinstance(node, ast.ExceptHandler) and node.name:
            bind(node.name)
        elif isinstance(node, ast.Lambda):
            for a in node.args.args:
                bind(a.arg)
    # ast.walk is breadth-first: order by source position instead
    pos = {}
    for node in ast.walk(fn):
        nm = None
        if isinstance(node, ast.Name) and isinstance(node.ctx, ast.Store):
            nm = node.id
        elif isinstance(node, ast.ExceptHandler) and node.name:
            nm = node.name
        elif isinstance(node, ast.arg) and node.arg in order:
            nm = node.arg
        if nm in order:
            key = (getattr(node, "lineno", 0), getattr(node, "col_offset", 0))
            pos[nm] = min(pos.get(nm, key), key)
    order.sort(key=lambda n: pos.get(n, (10**9, 0)))
    table = {n: f"L{i}" for i, n in enumerate(order)}
    return _Renamer(table).visit(fn)


def tr_referent_value(ev: ast.Module) -> str:
    cls = find_class(ev, "Referent")
    getter = None
    for n in cls.body:
        if isinstance(n, ast.FunctionDef) and n.name == "value" and any(ast.unparse(d) == "property" for d in n.decorator_list):
            getter = n
    need(getter is not None, "Referent.value property")
    b = body_of(getter)
    need(len(b) == 1 and isinstance(b[0], ast.If), "Referent.value: if/elif/else ladder")
    order = []
    node = b[0]
    while True:
        test = ast.unparse(node.test)
        ret = node.body[0]
        need(len(node.body) == 1 and isinstance(ret, ast.Return), "Referent.value: each branch returns")
        order.append((test, ast.unparse(ret.value)))
        if len(node.orelse) == 1 and isinstance(node.orelse[0], ast.If):
            node = node.orelse[0]
            continue
        need(len(node.orelse) == 1 and isinstance(node.orelse[0], ast.Return), "Referent.value: final else returns")
        order.append(("else", ast.unparse(node.orelse[0].value)))
        break
    table = {("self.container is not None", "self.container"): "container", ("self._value_set", "self._value"): "value",
             ("else", "self.annotation"): "annotation"}
    names = []
    for t in order:
        need(t in table, f"Referent.value: unrecognised branch {t}")
        names.append(table[t])
    # as a function of (has container, value set): which field is returned
    lines = ["/-- `Referent.value`, translated: which field the property returns -/",
             "def referentValue (hasContainer valueSet : Bool) : String :="]
    expr = ""
    for nm in names[:-1]:
        cond = {"container": "hasContainer", "value": "valueSet"}[nm]
        expr += f"if {cond} then {lean_str(nm)} else "
    expr += lean_str(names[-1])
    lines.append("  " + expr)
    setter = [n for n in cls.body if isinstance(n, ast.FunctionDef) and n.name == "value" and n is not getter]
    need(len(setter) == 1, "Referent.value setter")
    src = ast.unparse(setter[0])
    lines.append(f"def valueSetterSetsFlag : Bool := {lean_bool('self._value = ref_to' in src and 'self._value_set = True' in src)}")
    return "\n".join(lines) + "\n"


def tr_load_values(ev: ast.Module) -> str:
    cls = find_class(ev, "NameContainer")
    out = []
    for fname, final_stmts in (("load_values", ["context.setdefault(final, Referent())", "context[final].value = refers_to"]),
                               ("load_annotations", ["context.setdefault(final, Referent(refers_to))"])):
        fn = find_func(cls.body, fname)
        b = body_of(fn)
        need(len(b) == 1 and isinstance(b[0], ast.For), f"{fname}: one loop over the items")
        lb = [s for s in b[0].body if not is_logger_call(s)]
        src = [ast.unparse(s) for s in lb]
        need(any(s.startswith("if not self.extended_name_path.match(name)") for s in src), f"{fname}: name syntax check")
        need("context = self" in src, f"{fname}: starts at this container")
        need("*path, final = self.ident_pat.findall(name)" in src, f"{fname}: path split")
        loops = [s for s in lb if isinstance(s, ast.For)]
        need(len(loops) == 1, f"{fname}: inner loop over the path")
        inner = [ast.unparse(s) for s in loops[0].body]
        need(inner == ["ref = context.setdefault(name, Referent())",
                       "if ref.container is None:\n    ref.container = NameContainer(parent=self.parent)",
                       "context = ref.container"], f"{fname}: expansion loop body {inner}")
        tail = src[src.index(ast.unparse(loops[0])) + 1:]
        need(tail == final_stmts, f"{fname}: final component statements {tail}")
        out.append(f"def {fname}_expands_dotted_names : Bool := true")
    return "\n".join(out) + "\n"


def tr_find_name(ev: ast.Module) -> str:
    cls = find_class(ev, "NameContainer")
    fn = normalise_locals(find_func(cls.body, "find_name"))
    p = fn.args.args[1].arg
    b = body_of(fn)
    steps = []
    head = tail = sub = None
    for s in b:
        u = ast.unparse(s)
        if isinstance(s, ast.If) and ast.unparse(s.test) == f"not {p}":
            inner = [ast.unparse(x) for x in s.body]
            need(len(inner) == 3 and inner[0].endswith("= Referent()") and inner[1].endswith(".value = self")
                 and inner[2].startswith("return "), "find_name: empty path returns this container")
            steps.append("empty-path")
        elif isinstance(s, ast.Assign) and isinstance(s.targets[0], ast.Tuple) and ast.unparse(s.value) == p:
            elts = s.targets[0].elts
            need(len(elts) == 2 and isinstance(elts[1], ast.Starred), "find_name: head, *tail = path")
            head, tail = elts[0].id, elts[1].value.id
            steps.append("split")
        elif isinstance(s, ast.Try):
            need(len(s.body) == 1 and isinstance(s.body[0], ast.Assign) and ast.unparse(s.body[0].value) == f"self[{head}]"
                 and exc_names(s.handlers[0].type) == ["KeyError"] and f"raise NameContainer.NotFound({p})" in u,
                 "find_name: missing head raises NotFound")
            sub = s.body[0].targets[0].id
            steps.append("lookup-head")
        elif isinstance(s, ast.If) and ast.unparse(s.test) == f"not {tail}":
            need(ast.unparse(s.body[-1]) == f"return {sub}", "find_name: end of path returns the referent")
            steps.append("end-of-path")
        elif isinstance(s, ast.AnnAssign) and s.value is None:
            continue
        elif isinstance(s, ast.If) and ast.unparse(s.test) == f"{sub}.container":
            need(ast.unparse(s.body[-1]) == f"return {sub}.container.find_name({tail})", "find_name: container recursion")
            steps.append("container")
            need(len(s.orelse) == 1 and isinstance(s.orelse[0], ast.If), "find_name: elif mapping value")
            e = s.orelse[0]
            t = ast.unparse(e.test)
            need(t.startswith(f"{sub}._value_set and isinstance({sub}.value,") and "MapType" in t and "dict" in t,
                 "find_name: mapping-value test")
            eb = [ast.unparse(x) for x in e.body]
            need(len(eb) == 2 and f"NameContainer.dict_find_name(cast(Dict[str, Referent], {sub}.value), {tail})" in eb[0]
                 and eb[1] == "return " + eb[0].split(" = ")[0], "find_name: dict_find_name branch")
            steps.append("mapping-value")
            need(len(e.orelse) == 1 and isinstance(e.orelse[0], ast.Raise) and "TypeError" in ast.unparse(e.orelse[0]),
                 "find_name: otherwise TypeError")
            steps.append("type-error")
        else:
            raise TranslationError(f"find_name: unexpected statement {u[:60]}")
    out = ["def findNameSteps : List String := " + lean_list([lean_str(s) for s in steps])]
    # dict_find_name: key lookup, KeyError -> NotFound, end of path wraps the value
    df = normalise_locals(find_func(cls.body, "dict_find_name"))
    d, dp = df.args.args[0].arg, df.args.args[1].arg
    u = ast.unparse(df)
    ok = (f"L0, *L1 = {dp}" in u and f"return NameContainer.dict_find_name(cast(Dict[str, Referent], {d})[L0], L1)" in u
          and "except KeyError" in u and f"raise NameContainer.NotFound({dp})" in u
          and f".value = cast(celpy.celtypes.MapType, {d})" in u)
    out.append(f"def dictFindNavigatesKeys : Bool := {lean_bool(ok)}")
    return "\n".join(out) + "\n"


def tr_resolve_name(ev: ast.Module) -> str:
    cls = find_class(ev, "NameContainer")
    fn = normalise_locals(find_func(cls.body, "resolve_name"))
    pkg, name = fn.args.args[1].arg, fn.args.args[2].arg
    u = ast.unparse(fn)
    b = body_of(fn)
    # locals in order of first binding: L0 target, L1 matches, L2 container of the chain, L3 candidate path,
    # L4 referent found, L5/L6 the pair chosen by max, L7 the lambda's parameter
    facts = {
        "packageFirst": f"L0 = self.ident_pat.findall({pkg}) + ['']" in u and "L0 = ['']" in u,
        "shrinksFromTheEnd": "while not L1 and L0:" in u and "L0 = L0[:-1]" in u,
        "walksParentChain": "for L2 in self.parent_iter():" in u,
        "looksUpTargetPlusName": f"L3: List[str] = L0 + [{name}]" in u and "L4 = L2.find_name(L3)" in u and "L1.append((L3, L4))" in u,
        "keyErrorWhenNoMatch": any(isinstance(s, ast.If) and ast.unparse(s.test) == "not L1" and len(s.body) == 1
                                   and ast.unparse(s.body[0]) == f"raise KeyError({name})" for s in b),
        "longestMatch": "L5, L6 = max(L1, key=lambda L7: len(L7[0]))" in u and "return L6" in u,
    }
    skipped = []
    for node in ast.walk(fn):
        if isinstance(node, ast.Try):
            for h in node.handlers:
                need(all(isinstance(s, ast.Pass) or is_logger_call(s) or isinstance(s, ast.Expr) for s in h.body),
                     "resolve_name: handlers only skip the candidate")
                skipped += exc_names(h.type)
    out = [f"def resolve_{k} : Bool := {lean_bool(v)}" for k, v in facts.items()]
    out.append("def resolveSkips : List String := " + lean_list([lean_str(s) for s in skipped]))
    pi = ast.unparse(find_func(cls.body, "parent_iter"))
    out.append(f"def parentIterSelfFirst : Bool := {lean_bool(pi.index('yield self') < pi.index('yield from self.parent.parent_iter()'))}")
    return "\n".join(out) + "\n"


def tr_parent_iter(ev: ast.Module) -> str:
    """`parent_iter` is a generator (outside the interpreted subset): this container first, then the parents"""
    cls = find_class(ev, "NameContainer")
    fn = find_func(cls.body, "parent_iter")
    b = [ast.unparse(s) for s in body_of(fn)]
    ok = b in (["yield self", "if self.parent is not None:\n    yield from self.parent.parent_iter()"],
               ["yield self", "if self.parent is None:\n    return", "yield from self.parent.parent_iter()"])
    return f"def parentIterSelfFirst : Bool := {lean_bool(ok)}\n"


def inline_helpers(ev: ast.Module, fn: ast.FunctionDef) -> str:
    """the source of `fn` with one level of calls to module-level helper functions followed by meaning: every call
    `h(args)` of a module-level `def h(params)` whose body is a single `return <expr>` is replaced by <expr> with the
    parameters substituted by the argument expressions (arguments must be plain names or constants, so that
    substitution cannot duplicate or reorder effects; anything else is left as the call, i.e. not recognised)."""
    helpers = {n.name: n for n in ev.body if isinstance(n, ast.FunctionDef)}

    class Subst(ast.NodeTransformer):
        def __init__(self, m):
            self.m = m

        def visit_Name(self, node):
            return copy.deepcopy(self.m[node.id]) if node.id in self.m and isinstance(node.ctx, ast.Load) else node

    class Inline(ast.NodeTransformer):
        def visit_Call(self, node):
            self.generic_visit(node)
            h = helpers.get(node.func.id) if isinstance(node.func, ast.Name) else None
            if h is None or h is fn:
                return node
            body = body_of(h)
            a = h.args
            if len(body) != 1 or not isinstance(body[0], ast.Return) or body[0].value is None:
                return node
            if a.vararg or a.kwarg or a.posonlyargs or a.kwonlyargs or a.defaults:
                return node
            params = [x.arg for x in a.args]
            m = {}
            if len(node.args) > len(params) or any(isinstance(x, ast.Starred) for x in node.args):
                return node
            for prm, arg in zip(params, node.args):
                m[prm] = arg
            for kw in node.keywords:
                if kw.arg is None or kw.arg not in params or kw.arg in m:
                    return node
                m[kw.arg] = kw.value
            if set(m) != set(params) or not all(isinstance(v, (ast.Name, ast.Constant)) for v in m.values()):
                return node
            # names bound inside the helper's expression (comprehension targets) must not capture an argument
            bound = {t.id for t in ast.walk(body[0].value) if isinstance(t, ast.Name) and isinstance(t.ctx, ast.Store)}
            if bound & {v.id for v in m.values() if isinstance(v, ast.Name)}:
                return node
            return Subst(m).visit(copy.deepcopy(body[0].value))

    return ast.unparse(Inline().visit(copy.deepcopy(fn)))


def tr_activation(ev: ast.Module) -> str:
    act = find_class(ev, "Activation")
    out = []
    na = ast.unparse(find_func(act.body, "nested_activation"))
    out.append(f"def nestedActivationChains : Bool := {lean_bool('based_on=self' in na and 'vars=vars' in na and 'package=self.package' in na)}")
    init = ast.unparse(find_func(act.body, "__init__"))
    out.append(f"def activationParentIsBasedOn : Bool := {lean_bool('NameContainer(parent=based_on.identifiers if based_on else None)' in init)}")
    out.append(f"def annotationsLoadedBeforeValues : Bool := {lean_bool(init.index('self.identifiers.load_annotations(annotations)') < init.index('self.identifiers.load_values(vars)'))}")
    evc = find_class(ev, "Evaluator")
    se = ast.unparse(find_func(evc.body, "sub_evaluator"))
    sa = ast.unparse(find_func(evc.body, "set_activation"))
    import re as _re
    m = _re.search(r"(\w+) = Evaluator\(ast, activation=self\.activation\)", se)
    out.append(f"def macroEvaluatorIsLocal : Bool := {lean_bool(bool(m) and (m.group(1) + '.local_scope = True') in se and ('return ' + m.group(1)) in se)}")
    out.append(f"def localScopeUsesNestedActivation : Bool := {lean_bool('if self.local_scope:' in sa and 'self.activation = self.base_activation.nested_activation(vars=values)' in sa)}")
    out.append(f"def topLevelLoadsIntoClone : Bool := {lean_bool('self.activation = self.base_activation.clone()' in sa and 'self.activation.identifiers.load_values(values)' in sa)}")
    bm = ast.unparse(find_func(evc.body, "build_macro_eval")) + ast.unparse(find_func(evc.body, "build_ss_macro_eval"))
    out.append(f"def macroBodyBindsIdentifier : Bool := {lean_bool(bm.count('nested_eval = self.sub_evaluator(ast=expr_tree)') == 2 and bm.count('nested_eval.evaluate({identifier: v})') == 2)}")
    ok = True
    for fname in ("macro_map", "macro_filter", "macro_exists_one", "macro_exists", "macro_all"):
        src = inline_helpers(ev, find_func(ev.body, fname))
        ok = ok and "activation.nested_activation(vars={bind_variable: cast(Result, " in src
    out.append(f"def compiledMacrosUseNestedActivation : Bool := {lean_bool(ok)}")
    md = ast.unparse(find_func(evc.body, "member_dot"))
    ok = ("elif isinstance(member, NameContainer):" in md and "if property_name in member:" in md
          and "member[property_name].value)" in md)
    out.append(f"def memberDotOnNameContainer : Bool := {lean_bool(ok)}")
    tp = ast.unparse(find_func(find_class(ev, "Phase1Transpiler").body, "ident"))
    out.append(f"def transpiledIdentIsActivationAttr : Bool := {lean_bool('activation.${ident}' in tp)}")
    tmd = ast.unparse(find_func(find_class(ev, "Phase1Transpiler").body, "member_dot"))
    tmpl = "${left}.get('${right}')"
    out.append(f"def transpiledMemberDotIsGet : Bool := {lean_bool(tmpl in tmd)}")
    return "\n".join(out) + "\n"


def gen_names() -> str:
    ev = parse("src/celpy/evaluation.py")
    out = [HEADER.format(src="src/celpy/evaluation.py (Referent, NameContainer, Activation, Evaluator.sub_evaluator/set_activation/member_dot, macro_*)"),
           "namespace Cel.Gen.Names\n"]
    # Referent.value, find_name, dict_find_name, resolve_name, get, resolve_variable, __getattr__ are no longer
    # recognised by shape: gen_c12_py dumps their abstract syntax (Gen/NamesPy.lean) and the bridge runs it.
    out.append(tr_load_values(ev))
    out.append(tr_parent_iter(ev))
    out.append(tr_activation(ev))
    out.append("end Cel.Gen.Names\n")
    return "\n".join(out)


GENERATORS = {"Names": gen_names}
