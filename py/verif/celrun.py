"""Run CEL through the real implementation (in-process) and canonicalise outcomes."""
from __future__ import annotations
import datetime
import json
import struct
from typing import Any, Dict, Optional

import celpy
from celpy import celtypes
from celpy.evaluation import CELEvalError

RUNNERS = {"I": celpy.InterpretedRunner, "C": celpy.CompiledRunner}


def dbl_bits(x: float) -> str:
    if x != x:
        return "nan"
    return str(struct.unpack("<Q", struct.pack("<d", float(x)))[0])


def bits_dbl(b: int) -> float:
    return struct.unpack("<d", struct.pack("<Q", b))[0]


def canon(v: Any) -> str:
    """canonical, class-tagged rendering of a value returned by the implementation"""
    t = type(v)
    if v is None:
        return "null"
    if t is celtypes.BoolType:
        return "bool:" + ("true" if v else "false")
    if t is celtypes.IntType:
        return f"int:{int(v)}"
    if t is celtypes.UintType:
        return f"uint:{int(v)}"
    if t is celtypes.DoubleType:
        return "double:" + dbl_bits(v)
    if t is celtypes.StringType:
        return "string:" + json.dumps(str(v))
    if t is celtypes.BytesType:
        return "bytes:" + bytes(v).hex()
    if t is celtypes.ListType:
        return "list:[" + ",".join(canon(x) for x in v) + "]"
    if t is celtypes.MapType:
        return "map:{" + ",".join(sorted(canon(k) + "=>" + canon(x) for k, x in v.items())) + "}"
    if t is celtypes.TimestampType:
        u = v.astimezone(datetime.timezone.utc)
        return "timestamp:" + u.strftime("%Y-%m-%dT%H:%M:%S.%f").zfill(26) + "Z"
    if t is celtypes.DurationType:
        return "duration:" + str((v.days * 86400 + v.seconds) * 1000000 + v.microseconds)
    if isinstance(v, type):
        return "type:" + v.__name__
    if isinstance(v, CELEvalError):
        return "errvalue"
    # degraded natives
    if t is bool:
        return "pybool:" + ("true" if v else "false")
    if t is int:
        return f"pyint:{v}"
    if t is float:
        return "pyfloat:" + dbl_bits(v)
    if t is str:
        return "pystr:" + json.dumps(v)
    if t is bytes:
        return "pybytes:" + v.hex()
    if t is list:
        return "pylist:[" + ",".join(canon(x) for x in v) + "]"
    if t is dict:
        return "pydict:{" + ",".join(sorted(canon(k) + "=>" + canon(x) for k, x in v.items())) + "}"
    if t is datetime.timedelta:
        return "pytimedelta:" + str((v.days * 86400 + v.seconds) * 1000000 + v.microseconds)
    if t is datetime.datetime:
        return "pydatetime:" + v.isoformat()
    return f"py:{t.__module__}.{t.__name__}"


def run(src: str, runner: str = "I", bindings: Optional[Dict[str, Any]] = None, annotations=None,
        functions=None, package=None) -> str:
    """compile + program + evaluate; outcome: canonical value | `err` (CELEvalError) |
    `parse-error` | `EXC <class>` (anything else that escapes)."""
    try:
        env = celpy.Environment(package=package, annotations=annotations, runner_class=RUNNERS[runner])
        try:
            ast = env.compile(src)
        except celpy.CELParseError:
            return "parse-error"
        prog = env.program(ast, functions=functions)
        v = prog.evaluate(bindings or {})
        return canon(v)
    except CELEvalError:
        return "err"
    except RecursionError:
        return "EXC RecursionError"
    except Exception as ex:  # noqa
        return f"EXC {type(ex).__name__}"


def is_value(out: str) -> bool:
    return not (out == "err" or out == "parse-error" or out.startswith("EXC "))
