"""CEL value specifications shared by the C08 / C13 checks (owner: C08/C13 builder).

A value spec is a JSON-able nested list:
  ["i", n] int | ["u", n] uint | ["d", "<bits>"|"nan"] double | ["b", 0|1] bool | ["s", [code points]] string |
  ["y", [octets]] bytes | ["l", [specs]] list | ["m", [[keyspec, spec], ...]] map | ["z"] null |
  ["t", µs since the Unix epoch, utc offset in minutes] timestamp | ["r", µs] duration | ["T", name] type

Functions: `tokens` (Lean driver syntax, Cel/Drv/Val.lean), `to_obj` (celtypes object), `to_lit` (CEL source text or
None), reference semantics written independently of celtypes (`ref_eq`, `ref_cmp`, `same_type`, `has_nan`), generators.
"""
from __future__ import annotations
import datetime
import math
import random
import struct
from typing import Any, List, Optional

I_MIN, I_MAX, U_MAX = -2**63, 2**63 - 1, 2**64 - 1
EPOCH = datetime.datetime(1970, 1, 1, tzinfo=datetime.timezone.utc)
TS_LO = int((datetime.datetime(2, 1, 2, tzinfo=datetime.timezone.utc) - EPOCH).total_seconds()) * 10**6
TS_HI = int((datetime.datetime(9998, 12, 30, tzinfo=datetime.timezone.utc) - EPOCH).total_seconds()) * 10**6
DUR_MAX = 315576000000 * 10**6
TYPE_NAMES = ["int", "uint", "double", "bool", "string", "bytes", "list", "map", "null_type", "timestamp", "duration", "type"]
ORDERED = {"i", "u", "d", "b", "s", "y", "t", "r"}


def bits_of(x: float) -> str:
    if x != x:
        return "nan"
    return str(struct.unpack("<Q", struct.pack("<d", float(x)))[0])


def dbl_of(bits: str) -> float:
    if bits == "nan":
        return math.nan
    return struct.unpack("<d", struct.pack("<Q", int(bits)))[0]


# ---------------------------------------------------------------------------------------------------
# renderings
# ---------------------------------------------------------------------------------------------------

def tokens(v) -> str:
    t = v[0]
    if t in ("i", "u", "b", "r"):
        return f"{t} {v[1]}"
    if t == "d":
        return f"d {v[1]}"
    if t in ("s", "y"):
        return f"{t} {len(v[1])}" + "".join(f" {c}" for c in v[1])
    if t == "l":
        return f"l {len(v[1])}" + "".join(" " + tokens(x) for x in v[1])
    if t == "m":
        return f"m {len(v[1])}" + "".join(" " + tokens(k) + " " + tokens(x) for k, x in v[1])
    if t == "z":
        return "z"
    if t == "t":
        return f"t {v[1]} {v[2]}"
    if t == "T":
        return f"T {v[1]}"
    raise ValueError(v)


def to_obj(v):
    from celpy import celtypes
    t = v[0]
    if t == "i":
        return celtypes.IntType(v[1])
    if t == "u":
        return celtypes.UintType(v[1])
    if t == "d":
        return celtypes.DoubleType(dbl_of(v[1]))
    if t == "b":
        return celtypes.BoolType(bool(v[1]))
    if t == "s":
        return celtypes.StringType("".join(chr(c) for c in v[1]))
    if t == "y":
        return celtypes.BytesType(bytes(v[1]))
    if t == "l":
        return celtypes.ListType([to_obj(x) for x in v[1]])
    if t == "m":
        return celtypes.MapType([(to_obj(k), to_obj(x)) for k, x in v[1]])
    if t == "z":
        return None
    if t == "t":
        tz = datetime.timezone(datetime.timedelta(minutes=v[2]))
        return celtypes.TimestampType((EPOCH + datetime.timedelta(microseconds=v[1])).astimezone(tz))
    if t == "r":
        return celtypes.DurationType(datetime.timedelta(microseconds=v[1]))
    if t == "T":
        return {"int": celtypes.IntType, "uint": celtypes.UintType, "double": celtypes.DoubleType, "bool": celtypes.BoolType,
                "string": celtypes.StringType, "bytes": celtypes.BytesType, "list": celtypes.ListType, "map": celtypes.MapType,
                "null_type": type(None), "timestamp": celtypes.TimestampType, "duration": celtypes.DurationType,
                "type": celtypes.TypeType}[v[1]]
    raise ValueError(v)


def _str_lit(cps: List[int]) -> str:
    out = []
    for c in cps:
        if c == 0x27:
            out.append("\\'")
        elif c == 0x5C:
            out.append("\\\\")
        elif 0x20 <= c < 0x7F:
            out.append(chr(c))
        elif c < 0x100:
            out.append("\\x%02x" % c)
        elif c < 0x10000:
            out.append("\\u%04x" % c)
        else:
            out.append("\\U%08x" % c)
    return "'" + "".join(out) + "'"


def to_lit(v) -> Optional[str]:
    """CEL source text denoting the value, or None when there is no faithful spelling"""
    t = v[0]
    if t == "i":
        return str(v[1]) if v[1] >= 0 else f"({v[1]})"
    if t == "u":
        return f"{v[1]}u"
    if t == "d":
        x = dbl_of(v[1])
        if x != x:
            return "(0.0/0.0)"
        if math.isinf(x):
            return "(1.0/0.0)" if x > 0 else "(-1.0/0.0)"
        s = repr(abs(x))
        if "e" in s and "." not in s:
            m, e = s.split("e")
            s = m + ".0e" + e
        return f"(-{s})" if math.copysign(1.0, x) < 0 else s
    if t == "b":
        return "true" if v[1] else "false"
    if t == "s":
        return _str_lit(v[1])
    if t == "y":
        return "b'" + "".join("\\x%02x" % c for c in v[1]) + "'"
    if t == "l":
        xs = [to_lit(x) for x in v[1]]
        return None if any(x is None for x in xs) else "[" + ", ".join(xs) + "]"
    if t == "m":
        kv = [(to_lit(k), to_lit(x)) for k, x in v[1]]
        return None if any(k is None or x is None for k, x in kv) else "{" + ", ".join(f"{k}: {x}" for k, x in kv) + "}"
    if t == "z":
        return "null"
    if t == "t":
        tz = datetime.timezone(datetime.timedelta(minutes=v[2]))
        d = (EPOCH + datetime.timedelta(microseconds=v[1])).astimezone(tz)
        if d.year < 1000:
            return None
        frac = ".%06d" % d.microsecond if d.microsecond else ""
        off = "Z" if v[2] == 0 else ("%s%02d:%02d" % ("+" if v[2] >= 0 else "-", abs(v[2]) // 60, abs(v[2]) % 60))
        return "timestamp('%04d-%02d-%02dT%02d:%02d:%02d%s%s')" % (d.year, d.month, d.day, d.hour, d.minute, d.second, frac, off)
    if t == "r":
        if v[1] % 10**6:
            return None            # fractional seconds go through float parsing: not a faithful spelling
        return f"duration('{v[1] // 10**6}s')"
    if t == "T":
        return v[1]
    raise ValueError(v)


# ---------------------------------------------------------------------------------------------------
# reference semantics (independent of celtypes): the property's own notion of equality and order
# ---------------------------------------------------------------------------------------------------

def has_nan(v) -> bool:
    t = v[0]
    if t == "d":
        return v[1] == "nan"
    if t == "l":
        return any(has_nan(x) for x in v[1])
    if t == "m":
        return any(has_nan(x) for _, x in v[1])
    return False


def same_type(a, b) -> bool:
    """deep: same class; list elements pairwise as far as both go; maps: one key class overall, values under common keys"""
    if a[0] != b[0]:
        return False
    t = a[0]
    if t == "l":
        return all(same_type(x, y) for x, y in zip(a[1], b[1]))
    if t == "m":
        kcs = {k[0] for k, _ in a[1]} | {k[0] for k, _ in b[1]}
        if len(kcs) > 1:
            return False
        db = {_keyid(k): x for k, x in b[1]}
        return all(same_type(x, db[_keyid(k)]) for k, x in a[1] if _keyid(k) in db)
    return True


def self_typed(v) -> bool:
    """a value that is same-typed with itself (homogeneous key class in every map)"""
    return same_type(v, v)


def _keyid(k):
    return (k[0], tuple(k[1]) if isinstance(k[1], list) else k[1])


def ref_cmp(a, b) -> Optional[int]:
    """three-way comparison of two same-class ORDERED scalars; None when unordered (NaN)"""
    t = a[0]
    assert t == b[0] and t in ORDERED
    if t == "d":
        x, y = dbl_of(a[1]), dbl_of(b[1])
        if x != x or y != y:
            return None
        # exact comparison of binary64 values as rationals (−0 = +0), without float comparison operators
        from fractions import Fraction
        def fr(z):
            if math.isinf(z):
                return Fraction(10**400) if z > 0 else Fraction(-10**400)
            return Fraction(z)
        fx, fy = fr(x), fr(y)
        return (fx > fy) - (fx < fy)
    if t in ("s", "y"):
        x, y = list(a[1]), list(b[1])
        for p, q in zip(x, y):
            if p != q:
                return -1 if p < q else 1
        return (len(x) > len(y)) - (len(x) < len(y))
    x, y = a[1], b[1]          # i, u, b, t (instant, offset ignored), r
    return (x > y) - (x < y)


def ref_eq(a, b) -> Optional[bool]:
    """the property's equality on same-typed values; None where the statement says nothing"""
    if a[0] != b[0]:
        return None
    t = a[0]
    if t in ORDERED:
        c = ref_cmp(a, b)
        return False if c is None else c == 0
    if t == "z":
        return True
    if t == "T":
        return a[1] == b[1]
    if t == "l":
        if len(a[1]) != len(b[1]):
            return False
        res = True
        for x, y in zip(a[1], b[1]):
            e = ref_eq(x, y)
            if e is None:
                return None
            res = res and e
        return res
    if t == "m":
        da = {_keyid(k): x for k, x in a[1]}
        db = {_keyid(k): x for k, x in b[1]}
        if set(da) != set(db):
            return False
        res = True
        for k in da:
            e = ref_eq(da[k], db[k])
            if e is None:
                return None
            res = res and e
        return res
    return None


# ---------------------------------------------------------------------------------------------------
# generators
# ---------------------------------------------------------------------------------------------------

INT_EDGE = [0, 1, -1, 2, -2, I_MAX, I_MIN, I_MAX - 1, I_MIN + 1, 2**31, -2**31, 2**32, 2**53, 2**53 + 1, -2**53 - 1, 2**61 - 1, 2**62]
UINT_EDGE = [0, 1, 2, U_MAX, U_MAX - 1, 2**63, 2**63 - 1, 2**32, 2**53 + 1, 2**61 - 1]
DBL_EDGE = [0.0, -0.0, 1.0, -1.0, math.inf, -math.inf, 5e-324, -5e-324, 1.7976931348623157e308, -1.7976931348623157e308,
            0.1, 0.30000000000000004, 2.0**53, 2.0**53 + 2, 1e-320, 2.2250738585072014e-308]
CP_POOL = [0x61, 0x62, 0x41, 0x7A, 0x20, 0x27, 0x5C, 0x30, 0x7F, 0xE9, 0xFF, 0x100, 0x3B1, 0xD7FF, 0xE000, 0xFFFD, 0xFFFF,
           0x10000, 0x10001, 0x1F431, 0x1F600, 0x10FFFF, 0x0A, 0x00]
OFFSETS = [0, 60, -60, 330, -480, 14 * 60, -12 * 60, 1, -1, 23 * 60 + 59, -(23 * 60 + 59), 345]


def gen_scalar(rng: random.Random, t: str):
    if t == "i":
        r = rng.random()
        if r < 0.4:
            return ["i", rng.choice(INT_EDGE)]
        if r < 0.7:
            return ["i", rng.randint(-5, 5)]
        return ["i", rng.randint(I_MIN, I_MAX)]
    if t == "u":
        r = rng.random()
        if r < 0.4:
            return ["u", rng.choice(UINT_EDGE)]
        if r < 0.7:
            return ["u", rng.randint(0, 5)]
        return ["u", rng.randint(0, U_MAX)]
    if t == "d":
        r = rng.random()
        if r < 0.5:
            return ["d", bits_of(rng.choice(DBL_EDGE))]
        if r < 0.55:
            return ["d", "nan"]
        if r < 0.8:
            return ["d", bits_of(float(rng.randint(-3, 3)) / rng.choice([1, 2, 3]))]
        x = struct.unpack("<d", struct.pack("<Q", rng.getrandbits(64)))[0]
        return ["d", bits_of(x)]
    if t == "b":
        return ["b", rng.randint(0, 1)]
    if t == "s":
        n = rng.choice([0, 0, 1, 1, 2, 2, 3, 5])
        return ["s", [rng.choice(CP_POOL) for _ in range(n)]]
    if t == "y":
        n = rng.choice([0, 0, 1, 1, 2, 3, 4])
        return ["y", [rng.choice([0, 1, 0x61, 0x62, 0x7F, 0x80, 0xFF, 0xC3, 0xA9]) for _ in range(n)]]
    if t == "z":
        return ["z"]
    if t == "t":
        r = rng.random()
        if r < 0.3:
            us = rng.choice([0, 1, -1, 10**6, TS_LO, TS_HI, 1234567890 * 10**6, 951782400 * 10**6])
        elif r < 0.6:
            us = rng.choice([0, 1234567890 * 10**6]) + rng.randint(-3, 3) * rng.choice([1, 10**6, 3600 * 10**6])
        else:
            us = rng.randint(TS_LO, TS_HI)
        return ["t", us, rng.choice(OFFSETS) if rng.random() < 0.8 else rng.randint(-1439, 1439)]
    if t == "r":
        r = rng.random()
        if r < 0.3:
            return ["r", rng.choice([0, 1, -1, 10**6, -10**6, DUR_MAX, -DUR_MAX, 999999, 86400 * 10**6])]
        if r < 0.6:
            return ["r", rng.randint(-3, 3) * rng.choice([1, 10**6])]
        return ["r", rng.randint(-DUR_MAX, DUR_MAX)]
    if t == "T":
        return ["T", rng.choice(TYPE_NAMES)]
    raise ValueError(t)


SCALARS = ["i", "u", "d", "b", "s", "y", "z", "t", "r", "T"]
KEYS = ["i", "u", "b", "s"]


def gen_type(rng: random.Random, depth: int):
    """a CEL type: scalar tag | ("l", elem) | ("m", keytag, val) | ("dyn",) for heterogeneous positions"""
    if depth <= 0 or rng.random() < 0.45:
        return rng.choice(SCALARS)
    if rng.random() < 0.55:
        return ("l", gen_type(rng, depth - 1))
    return ("m", rng.choice(KEYS), gen_type(rng, depth - 1))


def gen_val(rng: random.Random, ty, near=None):
    """a value of type `ty`; with `near` (a value of the same type) mostly a small variation of it"""
    if isinstance(ty, str):
        if near is not None and rng.random() < 0.5:
            return _vary_scalar(rng, near)
        return gen_scalar(rng, ty)
    if ty[0] == "l":
        if near is not None and rng.random() < 0.8:
            xs = [gen_val(rng, ty[1], x) if rng.random() < 0.3 else x for x in near[1]]
            r = rng.random()
            if r < 0.15 and xs:
                xs = xs[:-1]
            elif r < 0.3:
                xs = xs + [gen_val(rng, ty[1])]
            elif r < 0.4 and len(xs) > 1:
                i = rng.randrange(len(xs) - 1)
                xs[i], xs[i + 1] = xs[i + 1], xs[i]
            return ["l", xs]
        n = rng.choice([0, 1, 1, 2, 2, 3, 4])
        return ["l", [gen_val(rng, ty[1]) for _ in range(n)]]
    if ty[0] == "m":
        if near is not None and rng.random() < 0.8:
            kvs = [[k, gen_val(rng, ty[2], x) if rng.random() < 0.3 else x] for k, x in near[1]]
            r = rng.random()
            if r < 0.35:
                rng.shuffle(kvs)          # insertion order must not matter
            elif r < 0.5 and kvs:
                kvs.pop(rng.randrange(len(kvs)))
            elif r < 0.65:
                kvs = _add_key(rng, ty, kvs)
            elif r < 0.75 and kvs:
                # replace one key by a fresh one (same size, different key set)
                i = rng.randrange(len(kvs))
                v = kvs[i][1]
                kvs.pop(i)
                kvs = _add_key(rng, ty, kvs, v)
            return ["m", kvs]
        kvs: list = []
        for _ in range(rng.choice([0, 1, 1, 2, 2, 3])):
            kvs = _add_key(rng, ty, kvs)
        return ["m", kvs]
    raise ValueError(ty)


def _add_key(rng, ty, kvs, val=None):
    have = {_keyid(k) for k, _ in kvs}
    for _ in range(10):
        k = gen_scalar(rng, ty[1])
        if ty[1] == "s" and 0 in k[1]:
            continue
        if _keyid(k) not in have:
            return kvs + [[k, val if val is not None else gen_val(rng, ty[2])]]
    return kvs


def _vary_scalar(rng, v):
    t = v[0]
    if t == "i":
        return ["i", max(I_MIN, min(I_MAX, v[1] + rng.choice([-1, 0, 0, 1])))]
    if t == "u":
        return ["u", max(0, min(U_MAX, v[1] + rng.choice([-1, 0, 0, 1])))]
    if t == "d":
        if v[1] == "nan":
            return v
        b = int(v[1])
        r = rng.random()
        if r < 0.4:
            return v
        if r < 0.6:
            return ["d", str(b ^ (1 << 63))]                      # flip the sign (−0.0 vs +0.0 among others)
        nb = b + rng.choice([-1, 1])
        if nb < 0 or nb >= 2**64 or dbl_of(str(nb)) != dbl_of(str(nb)):
            return v
        return ["d", str(nb)]
    if t == "b":
        return ["b", v[1] if rng.random() < 0.5 else 1 - v[1]]
    if t in ("s", "y"):
        xs = list(v[1])
        r = rng.random()
        pool = CP_POOL if t == "s" else [0, 0x61, 0x62, 0x80, 0xFF]
        if r < 0.35:
            return [t, xs]
        if r < 0.5:
            return [t, xs + [rng.choice(pool)]]              # proper prefix
        if r < 0.65 and xs:
            return [t, xs[:-1]]
        if xs:
            i = rng.randrange(len(xs))
            xs[i] = rng.choice(pool)
        return [t, xs]
    if t == "t":
        r = rng.random()
        us = v[1] + (0 if r < 0.5 else rng.choice([-1, 1, 10**6, -10**6, 3600 * 10**6]))
        us = max(TS_LO, min(TS_HI, us))
        return ["t", us, rng.choice(OFFSETS)]                 # same or close instant written in another zone
    if t == "r":
        return ["r", max(-DUR_MAX, min(DUR_MAX, v[1] + rng.choice([-1, 0, 0, 1, 10**6])))]
    if t == "T":
        return ["T", v[1] if rng.random() < 0.5 else rng.choice(TYPE_NAMES)]
    return v


def depth_of(v) -> int:
    if v[0] == "l":
        return 1 + max([depth_of(x) for x in v[1]] or [0])
    if v[0] == "m":
        return 1 + max([depth_of(x) for _, x in v[1]] or [0])
    return 0


# ---------------------------------------------------------------------------------------------------
# round 2 (C08): values that are DIFFERENT but equal under some coarser notion of "the same" — the inputs on which
# a well-meant fast path / normalisation / tolerance in a comparison shows (additive; used by props/c08.py only)
# ---------------------------------------------------------------------------------------------------

# atoms a "text" is assembled from: ASCII, precomposed letters, singleton equivalents, compatibility characters, case
# oddities, Hangul, combining marks (also in non-canonical order), variation selectors / joiners
STR_ATOMS = ["a", "A", "e", "E", "z", "k", "K", "1", " ", "ss", "fi", "i", "I", "s", "cafe", "\u00e9", "e\u0301", "\u00c9",
             "\u00c5", "\u212b", "A\u030a", "\u00f1", "n\u0303", "\u00fc", "u\u0308", "\u01c6", "\u01c5", "\u01c4", "\u00df",
             "\u1e9e", "\ufb01", "\u0130", "\u0131", "\u03c2", "\u03c3", "\u03a3", "\u212a", "\u2126", "\u03a9", "\u00b5",
             "\u03bc", "\uac00", "\u1100\u1161", "\ud55c", "\u1112\u1161\u11ab", "\uff71", "\u30a2", "\uff21", "\uff11",
             "\u00b2", "\u00bd", "\u2163", "\u1e69", "s\u0323\u0307", "s\u0307\u0323", "q\u0307\u0323", "q\u0323\u0307",
             "\u1e9b\u0323", "\u0301", "\u2764\ufe0f", "\u2764", "\u200b", "\u00a0", "\u00ad", "\u0390", "\u03b9\u0308\u0301",
             "\U0001d400", "\U0001f431", "\u0958", "\u0915\u093c", "\u0f73", "\u0f71\u0f72", "\u304c", "\u304b\u3099", "\u00e7",
             "c\u0327", "\u1ebf", "e\u0302\u0301"]


def _str_transforms():
    import unicodedata as U
    return [
        ("nfc", lambda s: U.normalize("NFC", s)), ("nfd", lambda s: U.normalize("NFD", s)),
        ("nfkc", lambda s: U.normalize("NFKC", s)), ("nfkd", lambda s: U.normalize("NFKD", s)),
        ("lower", str.lower), ("upper", str.upper), ("casefold", str.casefold), ("title", str.title), ("swapcase", str.swapcase),
        ("strip", str.strip), ("pad", lambda s: s + " "), ("lpad", lambda s: " " + s), ("nul", lambda s: s + "\x00"),
        ("zwsp", lambda s: s + "\u200b"), ("nomarks", lambda s: "".join(c for c in U.normalize("NFD", s) if not U.combining(c))),
        ("ascii", lambda s: s.encode("ascii", "ignore").decode()), ("latin1", lambda s: s.encode("latin-1", "replace").decode("latin-1")),
        ("utf16swap", lambda s: "".join(sorted(s, key=lambda c: c.encode("utf-16-be")))), ("rev", lambda s: s[::-1]),
    ]


STR_TRANSFORM_WEIGHTS = {"nfc": 5, "nfd": 5, "nfkc": 2, "nfkd": 2, "casefold": 2, "lower": 2, "upper": 2}


def gen_text(rng: random.Random) -> str:
    """a short text assembled from STR_ATOMS (1–3 atoms)"""
    return "".join(rng.choice(STR_ATOMS) for _ in range(rng.choice([1, 1, 2, 2, 3])))


def equiv_texts(rng: random.Random, s: str, n: int) -> List[str]:
    """`n` texts related to `s` by normalisation / case mapping / padding / stripping of marks … (possibly equal to `s`)"""
    tfs = _str_transforms()
    ws = [STR_TRANSFORM_WEIGHTS.get(name, 1) for name, _ in tfs]
    out = []
    for _ in range(n):
        t = s
        for _ in range(rng.choice([1, 1, 1, 2])):
            _, f = rng.choices(tfs, weights=ws)[0]
            try:
                t = f(t)
            except Exception:
                pass
        out.append(t)
    return out


def str_spec(s: str):
    return ["s", [ord(c) for c in s if not 0xD800 <= ord(c) <= 0xDFFF]]


def near_equal_scalars(rng: random.Random, v) -> list:
    """values of the same scalar type that a sloppy comparison could take for `v`: wrap-around / truncation images of
    integers, doubles within a relative tolerance or equal in binary32, the same wall-clock reading in another zone,
    instants / durations equal after truncation to milliseconds or seconds"""
    t = v[0]
    out = []
    if t == "i":
        for d in (2**32, -2**32, 2**31, 2**53, 1, -1):
            out.append(["i", v[1] + d])
        out += [["i", -v[1]], ["i", (v[1] & 0xFFFFFFFF)], ["i", int(float(v[1])) if abs(v[1]) < 2**62 else v[1]]]
        out = [x for x in out if I_MIN <= x[1] <= I_MAX]
    elif t == "u":
        for d in (2**32, -2**32, 2**63, -2**63, 2**53, 1, -1):
            out.append(["u", v[1] + d])
        out += [["u", v[1] & 0xFFFFFFFF], ["u", v[1] & (2**63 - 1)]]
        out = [x for x in out if 0 <= x[1] <= U_MAX]
    elif t == "d" and v[1] != "nan":
        x = dbl_of(v[1])
        cands = [x * (1 + 1e-10), x * (1 - 1e-12), x + 1e-9, -x, math.nextafter(x, math.inf), math.nextafter(x, -math.inf)]
        try:
            cands.append(struct.unpack("<f", struct.pack("<f", x))[0])
        except (OverflowError, struct.error):
            pass
        if abs(x) < 2**62 and x == x and not math.isinf(x):
            cands += [float(round(x)), float(int(x))]
        out = [["d", bits_of(c)] for c in cands if c == c]
    elif t == "t":
        for off in (60, -60, 330, -480):
            us = v[1] + (v[2] - off) * 60 * 10**6            # the same wall-clock fields read in another zone
            if TS_LO <= us <= TS_HI:
                out.append(["t", us, off])
        out += [["t", v[1] - v[1] % 1000, v[2]], ["t", v[1] - v[1] % 10**6, v[2]], ["t", v[1] + 999, v[2]], ["t", v[1] + 86400 * 10**6, v[2]]]
        out = [x for x in out if TS_LO <= x[1] <= TS_HI]
    elif t == "r":
        out = [["r", v[1] - v[1] % 1000], ["r", v[1] - v[1] % 10**6], ["r", v[1] + 999], ["r", -v[1]], ["r", v[1] + 86400 * 10**6],
               ["r", v[1] % (86400 * 10**6)]]
        out = [x for x in out if -DUR_MAX <= x[1] <= DUR_MAX]
    elif t == "y":
        bs = bytes(v[1])
        out = [["y", list(b)] for b in (bs.lower(), bs.upper(), bs.rstrip(b"\x00"), bs + b"\x00", bs.strip(), bytes(c & 0x7F for c in bs))]
    elif t == "s":
        s = "".join(chr(c) for c in v[1])
        out = [str_spec(x) for x in equiv_texts(rng, s, 3)]
    return out
