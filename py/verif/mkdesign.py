"""Rebuild the generated parts of DESIGN.md:
  * the block between <!-- GEN:STATUS --> and <!-- /GEN:STATUS --> (notes/SUMMARY.md + defect ledger)
  * everything after <!-- GEN:APPENDIX --> (notes/Cnn.md, notes/SEEDED.md, notes/FIX_REVIEW.md summary)
Hand-written text elsewhere is left alone."""
import re, subprocess, sys
from pathlib import Path
V = Path(__file__).resolve().parents[2]
subprocess.run([sys.executable, str(V / "py/verif/mkseeded.py")], check=True, capture_output=True)
subprocess.run([sys.executable, str(V / "py/verif/mksummary.py")], check=True, capture_output=True)
d = (V / "DESIGN.md").read_text()

kf = (V / "known_findings.txt").read_text().splitlines()
ledger = ["", "#### Defect ledger (from `known_findings.txt`)", "",
          "`fixed:` = repaired by a separate unguarded `fix:` commit in /repo (baseline green, tests unedited); `known:` = genuine defect",
          "recorded as a finding (reason in the text), matched by the named predicate so that any other violation is still reported.", ""]
for l in kf:
    if l.startswith("fixed:") or l.startswith("known:"):
        ledger.append("* `" + l[:6] + "` " + l[7:].replace("|", "\\|"))
status = (V / "notes/SUMMARY.md").read_text().split("\n", 1)[1] + "\n".join(ledger) + "\n"
d = re.sub(r"<!-- GEN:STATUS -->.*?<!-- /GEN:STATUS -->", lambda m: "<!-- GEN:STATUS -->\n" + status + "<!-- /GEN:STATUS -->", d, flags=re.S)

app = ["<!-- GEN:APPENDIX -->", "", "# Appendix A — per-property build notes (written by whoever built the check)", ""]
for i in range(1, 21):
    f = V / "notes" / f"C{i:02d}.md"
    if f.exists():
        t = f.read_text()
        t = re.sub(r"^(#+) ", lambda m: "##" + m.group(1) + " ", t, flags=re.M)   # demote headings
        app += [t.rstrip(), "", "---", ""]
app += ["# Appendix B — seeded changes", "", (V / "notes/SEEDED.md").read_text().split("\n", 1)[1]]
fr = V / "notes" / "FIX_REVIEW.md"
if fr.exists():
    t = fr.read_text()
    app += ["", "# Appendix C — independent review of the `fix:` commits", "",
            "A separate reviewer sub-agent (read-only) re-ran every commit's witness on parent vs. commit, diffed transpiled output and the",
            "behave conformance results before/after. Its report:", "", re.sub(r"^(#+) ", lambda m: "##" + m.group(1) + " ", t, flags=re.M)]
i = d.index("<!-- GEN:APPENDIX -->")
d = d[:i] + "\n".join(app) + "\n"
(V / "DESIGN.md").write_text(d)
print("DESIGN.md", len(d.splitlines()), "lines")
